#!/venv/bin/python
"""check.py <Cnn> [--tier quick|thorough] [--replay FILE]

exit 0: the property held on everything explored (KNOWN-FINDING lines possible)
exit 1: `VIOLATION property=<id> replay=<path>` printed
exit 2: harness error (never a verdict)
"""
import argparse
import os
import sys

HERE = os.path.dirname(os.path.abspath(__file__))
sys.path.insert(0, HERE)
os.environ.setdefault("PYTHONDONTWRITEBYTECODE", "1")
sys.dont_write_bytecode = True

from simkit import orch, registry  # noqa: E402


def main():
    ap = argparse.ArgumentParser()
    ap.add_argument("prop")
    ap.add_argument("--tier", default=os.environ.get("VERIF_TIER", "quick"), choices=["quick", "thorough"])
    ap.add_argument("--replay")
    ap.add_argument("--runs", type=int)
    ap.add_argument("--workers", type=int)
    a = ap.parse_args()
    if a.replay:
        return orch.replay(a.replay)
    if a.prop not in registry.PROPS:
        print(f"unknown or not-applicable property {a.prop}")
        return 2
    seed = int(os.environ.get("VERIF_SEED", "0"))
    return orch.run_check(a.prop, registry.PROPS[a.prop], a.tier, seed, runs=a.runs, workers=a.workers)


if __name__ == "__main__":
    sys.exit(main())
