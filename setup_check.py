#!/venv/bin/python
"""MANIFEST.setup_cmd: verify the interpreter, the WPILib simulation back end and
the preconditions the simulator relies on.  Offline, reads only files on disk."""
import os, subprocess, sys
HERE = os.path.dirname(os.path.abspath(__file__))
def main():
    r = subprocess.run([sys.executable, os.path.join(HERE, "simkit", "worker.py"), "selfcheck"],
                       env=dict(os.environ, PYTHONHASHSEED="0"))
    if r.returncode != 0:
        print("setup: worker selfcheck failed"); return 2
    # small four-way determinism self-test, one property per engine
    r = subprocess.run([sys.executable, os.path.join(HERE, "selftest", "determinism.py"), "--n", "32", "--fresh", "4",
                        "C01", "C05", "C09", "C14", "C15", "C16", "C19"])
    if r.returncode != 0:
        print("setup: determinism self-test failed"); return 2
    print("setup: ok"); return 0
if __name__ == "__main__":
    sys.exit(main())
