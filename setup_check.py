#!/venv/bin/python
"""MANIFEST.setup_cmd: verify the interpreter, the WPILib simulation back end and
the preconditions the simulator relies on.  Offline, reads only files on disk."""
import os, subprocess, sys
HERE = os.path.dirname(os.path.abspath(__file__))
def main():
    r = subprocess.run([sys.executable, os.path.join(HERE, "simkit", "worker.py"), "selfcheck"],
                       env=dict(os.environ, PYTHONHASHSEED="0"))
    if r.returncode != 0:
        print("setup: worker selfcheck failed"); return 2
    print("setup: ok"); return 0
if __name__ == "__main__":
    sys.exit(main())
