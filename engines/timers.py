"""Engine TIME: clocks, notifiers, debouncers, rate limiters (properties C16, C19).

C16: robotpy_ext.misc.NotifierDelay on the real HAL notifier, the wake-up source
     replaced by the scheduler (hal.waitForNotifierAlarm seam).
C19: Toggle / ButtonDebouncer / PeriodicFilter / SimpleWatchdog driven by seeded
     (clock advance, input, accessor) histories on the paused HAL clock.
"""
import logging
import random

from simkit import util
from simkit.util import GRID_US, Inconclusive, Violation

ENGINE = "timers"
BAND = 1e-7


# =============================================================== generation

def _nice_seconds(rng, dyadic, lo_us=1000, hi_us=3_000_000):
    """A float number of seconds whose microsecond value is unambiguous (int(x*1e6) == round(x*1e6))."""
    for _ in range(100):
        if dyadic:
            us = rng.choice([1, 1, 2, 2, 4, 8, 32, 64, 128]) * GRID_US
        else:
            us = rng.choice([1000, 5000, 10000, 20000, 20000, 25000, 50000, 100000, 500000, rng.randint(lo_us, hi_us)])
        x = us / 1e6
        if lo_us <= us <= hi_us and int(x * 1e6) == us:
            return x, us
    return 0.02, 20000


def gen_c16(rng, tier):
    dyadic = rng.random() < 0.4
    marathon = rng.random() < (0.02 if tier == "quick" else 0.05)
    far = marathon or rng.random() < 0.1        # the clock is weeks from boot
    ops = []
    for _ in range(rng.choice([1, 1, 2, 3])):
        if rng.random() < 0.15:
            P = rng.choice([0.029, 0.0013, 0.07, round(rng.uniform(0.001, 0.2), 5)])   # values whose int(P*1e6) truncates
            p_us = int(P * 1e6)
        else:
            P, p_us = _nice_seconds(rng, dyadic, 1000, 250000)
        ops.append(["adv", rng.choice([0, 1, 3, 17]) * (GRID_US if dyadic else 999)])
        r0 = rng.random()
        if r0 < 0.25:
            # built ahead of time, entered later: the grid still starts at the creation instant
            ops.append(["create", P, False])
            gap = rng.choice([0, p_us - 1, p_us, p_us + 1, 2 * p_us + p_us // 2, rng.randint(0, 3 * p_us)])
            ops.append(["body", int((gap // GRID_US) * GRID_US if dyadic else gap)])
            ops.append(["enter"])
        else:
            ops.append(["create", P, r0 < 0.6])
        if len(ops) > 6 and rng.random() < 0.3:
            ops.append(["stale_wait"])      # somebody still calls wait() on the delay that was released before
        style = rng.choice(["short", "mixed", "overrun", "exact"])
        n_waits = rng.choice([2, 5, 10, 25] if tier == "quick" else [3, 10, 30, 60])
        if marathon and len(ops) < 8:
            n_waits, style = rng.choice([1200, 1500, 2500]), "short"     # one delay paces a long run
        for _ in range(n_waits):
            r = rng.random()
            if style == "short" or (style == "mixed" and r < 0.6):
                body = rng.randint(0, max(1, p_us - 1))
            elif style == "exact" or (style == "mixed" and r < 0.75):
                body = rng.choice([p_us, p_us, 2 * p_us, p_us - 1, p_us + 1, 0])
            else:
                body = rng.choice([p_us + rng.randint(1, p_us), 3 * p_us + rng.randint(0, p_us), 7 * p_us, rng.randint(0, 5 * p_us)])
            if not marathon and rng.random() < 0.01:
                body = rng.choice([301, 1000, 86400]) * 10**6 + rng.randint(0, p_us)      # the loop stalls for minutes
            if dyadic:
                body = (body // GRID_US) * GRID_US
            ops.append(["body", int(body)])
            late = 0
            if rng.random() < 0.1:
                late = rng.choice([1, 50, p_us // 2, 2 * p_us]) if not dyadic else rng.choice([1, 2]) * GRID_US
            ops.append(["wait", int(late)])
            if rng.random() < 0.03:
                ops.append(["stale_wait"])
        if rng.random() < 0.12:
            ops.append(["body", int(rng.randint(0, max(1, p_us - 1)) // (GRID_US if dyadic else 1) * (GRID_US if dyadic else 1))])
            ops.append(["wait", 0, "free_during"])
        ops.append(["free", rng.choice(["free", "exit", "free_twice"])])
        for _ in range(rng.choice([0, 1, 3])):
            ops.append(["body", rng.randint(0, 2 * p_us)])
            ops.append(["wait", 0])
    if not marathon and rng.random() < 0.2:
        # a second, independent NotifierDelay is alive at the same time (its own period, its own grid): the two must not
        # influence each other
        if rng.random() < 0.15:
            PB = rng.choice([0.029, 0.0013, 0.07])
        else:
            PB, _ = _nice_seconds(rng, dyadic, 1000, 250000)
        n = len(ops)
        at = sorted(rng.sample(range(1, n + 1), min(n, rng.choice([3, 6, 12]))))
        out, made, freed_b = [], False, False
        for i, op in enumerate(ops):
            out.append(op)
            if (i + 1) in at:
                if not made:
                    out.append(["B", ["create", PB, rng.random() < 0.5]])
                    made = True
                elif not freed_b and rng.random() < 0.12:
                    out.append(["B", ["free", rng.choice(["free", "exit"])]])
                    freed_b = True
                else:
                    out.append(["B", ["wait", 0]])
        ops = out
    boot = rng.choice([0, 5, 64, 100000]) * (GRID_US if dyadic else 1)
    if far:
        boot = rng.choice([50, 126]) * 86400 * 10**6 + (0 if dyadic else rng.choice([0, 7, 999_983]))
    return {"dyadic": dyadic, "boot_us": boot, "time_source": rng.choice(["frozen", "ahead"]) if rng.random() < 0.1 else None}, ops


def gen_c19(rng, tier):
    kind = rng.choice(["toggle", "toggle", "toggle_db", "toggle_db", "debouncer", "debouncer", "pfilter", "watchdog", "watchdog"])
    dyadic = rng.random() < 0.5
    g = GRID_US if dyadic else 1
    n = rng.choice([5, 15, 40, 80] if tier == "quick" else [10, 40, 120, 250])
    period, period_us = _nice_seconds(rng, dyadic, 1000, 2_000_000)
    if kind != "watchdog" and rng.random() < 0.06:
        period, period_us = rng.choice([0, 0.0]), 0        # a legal degenerate period: nothing is held back
    elif kind != "watchdog" and not dyadic and rng.random() < 0.2:
        period = rng.choice([1 / 3, 1 / 60, 2 / 3, 0.1 + 3e-7, 1 / 7])      # not a whole number of microseconds
        period_us = int(period * 1e6)
    cfg = {"kind": kind, "dyadic": dyadic, "period": period, "period_us": period_us,
           "time_source": rng.choice(["frozen", "ahead"]) if rng.random() < 0.1 else None,
           "boot_us": rng.choice([0, 0, 1, 64, 64000]) * g if dyadic else rng.choice([0, 0, 17, 999_999, 10**7])}
    ops = []

    def adv():
        r = rng.random()
        if r < 0.1:
            return 0
        if r < 0.45:
            return rng.choice([period_us, period_us, period_us + g, max(0, period_us - g), 2 * period_us, period_us + 2 * g])
        if r < 0.8:
            step = rng.choice([20000, 20000, 5000]) if not dyadic else rng.choice([1, 2]) * GRID_US
            return step
        return rng.randint(0, 3 * period_us) // g * g

    if kind in ("toggle", "toggle_db", "debouncer"):
        level = False
        reentrant = rng.random() < 0.15
        cfg["latching_joystick"] = rng.random() < 0.3      # the joystick also offers getRawButtonPressed() like wpilib.Joystick
        p_tap = rng.choice([0.0, 0.0, 0.1, 0.3]) if kind != "debouncer" else 0.0
        p_flip = rng.choice([0.1, 0.3, 0.5, 0.8])
        for _ in range(n):
            ops.append(["adv", int(adv())])
            if rng.random() < p_flip:
                level = not level
            if p_tap and not level and rng.random() < p_tap:
                ops.append(["tap"])      # pressed and released again between two samples: no sample sees it
            if kind == "debouncer":
                if rng.random() < 0.05:
                    np_, _ = _nice_seconds(rng, dyadic, 1000, 2_000_000)
                    ops.append(["setperiod", np_])
                ops.append(["sample", int(level), rng.choice(["get", "get", "bool"])])
            else:
                ops.append(["sample", int(level), rng.choice(["get", "on", "off", "bool"])])
                if reentrant and rng.random() < 0.3:
                    # the joystick object reads the same toggle while it is being sampled (a telemetry proxy)
                    ops[-1].append(rng.choice(["on", "get", "off"]))
    elif kind == "pfilter":
        cfg["bypass"] = rng.choice([logging.WARNING, logging.WARNING, logging.INFO, logging.ERROR, logging.DEBUG, logging.NOTSET])
        several_loggers = rng.random() < 0.3
        for _ in range(n):
            ops.append(["adv", int(adv())])
            ops.append(["record", rng.choice([logging.DEBUG, logging.INFO, logging.INFO, logging.WARNING, logging.ERROR, logging.CRITICAL, 25])])
            if several_loggers:
                ops[-1].append(rng.choice(["x", "drive", "drive.left"]))      # one filter sees the records of several loggers
    else:
        cfg["bypass"] = None
        for _ in range(n):
            ops.append(["adv", int(adv()) if rng.random() < 0.7 else rng.choice([0, 400_000, 1_000_000, 1_000_000 + g, 1_500_000]) // g * g])
            r = rng.random()
            if r < 0.3:
                ops.append(["wd", rng.choice(["reset", "reset", "enable"])])
            elif r < 0.35:
                t, _ = _nice_seconds(rng, dyadic, 1000, 2_000_000)
                ops.append(["wd", "setTimeout", t])
            elif r < 0.5:
                ops.append(["wd", "addEpoch"])
            elif r < 0.75:
                ops.append(["wd", "isExpired"])
            elif r < 0.97:
                ops.append(["wd", "printIfExpired"])
            else:
                ops.append(["wd", "disable"])
    return cfg, ops


def generate(seed, prop, tier, index=0):
    if prop == "C19" and index % 25 == 7:
        # the robot's own loop watchdog, driven by the real mode loops (engine robot executes the plan)
        from engines import robot
        return robot.generate_c19(seed, tier, index)
    rng = random.Random(seed)
    cfg, ops = (gen_c16 if prop == "C16" else gen_c19)(rng, tier)
    return {"engine": ENGINE, "property": prop, "seed": seed, "config": cfg, "ops": ops}


# =============================================================== execution

def execute(plan, trace=False):
    from simkit import world
    world.goto(plan["config"]["boot_us"])
    clk = world.SimClock()
    R = _Run(plan, world, trace)
    status, violation = "ok", None
    ts = plan["config"].get("time_source")
    RC = world.wpilib.RobotController
    if ts:
        # the program installed its own time source for RobotController.getTime() (log replay, a corrected time base):
        # notifiers, the watchdog and the debouncers are specified on the FPGA clock
        frozen = world.now_us()
        RC.setTimeSource((lambda: frozen) if ts == "frozen" else (lambda: world.now_us() + 3_000_000))
        R.fault("custom_time_source_" + ts)
    try:
        if plan["property"] == "C16":
            _exec_c16(plan, world, R)
        else:
            _exec_c19(plan, world, R)
    except Inconclusive:
        status = "inconclusive"
    except Violation as v:
        status, violation = "violation", v.to_json()
    finally:
        if ts:
            RC.setTimeSource(RC.getFPGATime)
    res = {"status": status, "violation": violation, "probes": R.probes, "faults": R.faults, "shape": util.h48(R.shape),
           "digest": util.digest(R.log), "sim_us": clk.covered(), "nontrivial": bool(R.nontrivial and status == "ok"),
           "states": sorted(R.states), "trans": sorted(R.trans)}
    if trace:
        res["trace"] = [f"config {plan['config']}"] + R.trace
    return res


class _Run:
    def __init__(self, plan, world, trace):
        self.prop = plan["property"]
        self.probes, self.faults, self.shape, self.log = {}, {}, [], []
        self.states, self.trans = set(), set()
        self.nontrivial = False
        self.trace = [] if trace else None
        self._prev = None

    def probe(self, k, n=1):
        self.probes[k] = self.probes.get(k, 0) + n

    def fault(self, k, n=1):
        self.faults[k] = self.faults.get(k, 0) + n

    def visit(self, s):
        h = util.h48(s)
        self.states.add(h)
        if self._prev is not None:
            self.trans.add(util.h48((self._prev, s)))
        self._prev = s

    def fail(self, rule, idx, op, msg):
        raise Violation(self.prop, rule, f"op {idx} {op}: {msg}", sig=f"{self.prop}:{rule}", at=idx)

    def tr(self, line):
        if self.trace is not None:
            self.trace.append(line)


# ------------------------------------------------------------------ C16

def _exec_c16(plan, world, R):
    import hal
    from robotpy_ext.misc.precise_delay import NotifierDelay
    hs = world.hs
    real_wait = hal.waitForNotifierAlarm
    seam = {"calls": 0, "late": 0, "alarm": None, "t_in": None}

    alarms = {}
    real_update = hal.updateNotifierAlarm

    armed = set()

    def update_seam(handle, t):
        alarms[handle] = int(t)
        armed.add(handle)
        return real_update(handle, t)

    def wait_seam(handle):
        seam["calls"] += 1
        if handle not in armed or handle not in handles["live"]:
            # no alarm is programmed on this notifier (it was consumed by an earlier wake-up, or the handle was
            # released): the real HAL call would block for ever
            raise Violation("C16", "wait_would_block", f"wait() blocks on HAL notifier handle {handle}, which has no alarm programmed "
                            f"(live handles {sorted(handles['live'])}, armed {sorted(armed)})", sig="C16:wait_would_block")
        armed.discard(handle)
        alarm = alarms.get(handle, hs.getNextNotifierTimeout())
        seam["alarm"] = alarm
        seam["t_in"] = world.now_us()
        if seam.get("free_during") is not None:
            # somebody releases the delay while its wait() is blocked (the way to end a paced loop from outside): the
            # blocked call wakes up at that moment
            fd, seam["free_during"] = seam["free_during"], None
            if world.now_us() < alarm:
                world.advance((alarm - world.now_us()) // 2)
            fd.free()
            return real_wait(handle)
        if world.now_us() < alarm:
            world.goto(alarm)
            if seam["late"]:
                world.advance(seam["late"])
                R.fault("late_wakeup")
        return real_wait(handle)

    hal.waitForNotifierAlarm = wait_seam
    hal.updateNotifierAlarm = update_seam
    real_init, real_clean = hal.initializeNotifier, hal.cleanNotifier
    handles = {"live": set(), "cleaned": set(), "double": False}

    def init_seam():
        r = real_init()
        handles["last"] = r[0]
        handles["live"].add(r[0])
        handles["cleaned"].discard(r[0])       # HAL handle values are reused after a clean
        return r

    def clean_seam(h):
        if h in handles["cleaned"]:
            handles["double"] = True
        handles["cleaned"].add(h)
        handles["live"].discard(h)
        return real_clean(h)

    hal.initializeNotifier, hal.cleanNotifier = init_seam, clean_seam
    class Ctx:
        """one NotifierDelay slot (plans may keep a second, independent delay alive: ops wrapped in ["B", op])"""
        nd = None
        old = None
        t0 = p = k = None
        freed = True
        n_before = None
        overrun_seen = False
        handle = None

    cA, cB = Ctx(), Ctx()
    try:
        for idx, op in enumerate(plan["ops"]):
            c = cA
            if op[0] == "B":
                c, op = cB, op[1]
                R.probe("second_live_delay_ops")
            kind = op[0]
            if kind == "adv" or kind == "body":
                world.advance(op[1])
                R.shape.append((kind,))
            elif kind == "enter":
                if c.nd is None or c.freed:
                    continue
                t_before, calls_before = world.now_us(), seam["calls"]
                try:
                    if c.nd.__enter__() is not c.nd:
                        R.fail("with_block", idx, op, "__enter__ did not return the delay object")
                except Exception as e:
                    R.fail("exception", idx, op, f"{type(e).__name__}: {e}")
                if world.now_us() != t_before or seam["calls"] != calls_before:
                    R.fail("enter_waited", idx, op, "entering the with-block waited or moved the clock")
                R.probe("entered_later")
                R.shape.append(("enter",))
            elif kind == "stale_wait":
                if c.old is None:
                    continue
                t_before, calls_before = world.now_us(), seam["calls"]
                try:
                    c.old.wait()
                except Violation:
                    raise
                except Exception as e:
                    R.fail("exception", idx, op, f"{type(e).__name__}: {e}")
                if world.now_us() != t_before or seam["calls"] != calls_before:
                    R.fail("wait_after_free", idx, op, "wait() on a released NotifierDelay waited on a notifier or moved time (a newer delay is alive)")
                R.probe("stale_wait_on_released_instance")
                R.shape.append(("stale_wait",))
            elif kind == "create":
                if c.nd is not None and not c.freed:
                    # (shrunk plans) one NotifierDelay is alive at a time: release the previous one first
                    try:
                        c.nd.free()
                    except Exception as e:
                        R.fail("exception", idx, op, f"{type(e).__name__}: {e}")
                    c.freed = True
                c.n_before = hs.getNumNotifiers()
                c.t0 = world.now_us()
                c.old = c.nd              # keep the released one referenced
                try:
                    c.nd = NotifierDelay(op[1])
                    if op[2]:
                        if c.nd.__enter__() is not c.nd:
                            R.fail("with_block", idx, op, "__enter__ did not return the delay object")
                except Exception as e:
                    R.fail("exception", idx, op, f"{type(e).__name__}: {e}")
                if world.now_us() != c.t0:
                    R.fail("constructor_moved_time", idx, op, "creating the NotifierDelay moved the clock")
                if hs.getNumNotifiers() != c.n_before + 1:
                    R.fail("notifier_not_allocated", idx, op, f"HAL has {hs.getNumNotifiers()} notifiers, expected {c.n_before + 1}")
                c.handle = handles.get("last")
                first = alarms.get(c.handle, hs.getNextNotifierTimeout())
                c.p = first - c.t0
                if not abs(c.p - op[1] * 1e6) < 1:
                    R.fail("period", idx, op, f"first alarm {first} is {c.p} us after creation at {c.t0}; the period is {op[1]} s")
                c.k, c.freed = 0, False
                R.probe("created")
                R.shape.append(("create",))
                R.visit(("created",))
            elif kind == "wait":
                if c.nd is None:
                    continue
                calls0, now0 = seam["calls"], world.now_us()
                seam["late"] = op[1]
                freed_inside = len(op) > 2 and op[2] == "free_during" and not c.freed
                if freed_inside:
                    seam["free_during"] = c.nd
                    n_live = hs.getNumNotifiers()
                try:
                    c.nd.wait()
                except Violation:
                    raise
                except Exception as e:
                    R.fail("exception", idx, op, f"{type(e).__name__}: {e}" + (" (free() arrived while wait() was blocked)" if freed_inside else ""))
                seam["free_during"] = None
                t_ret = world.now_us()
                if freed_inside:
                    want = now0 + max(0, (c.t0 + (c.k + 1) * c.p - now0)) // 2
                    if t_ret != want:
                        R.fail("free_during_wait", idx, op, f"free() arrived at {want} while wait() was blocked; wait() returned at {t_ret}")
                    if hs.getNumNotifiers() != n_live - 1 or c.handle in handles["live"]:
                        R.fail("notifier_not_released", idx, op, "free() during a blocked wait() did not release the HAL notifier")
                    c.freed = True
                    R.fault("free_while_wait_blocked")
                    R.shape.append(("wait_freed_inside",))
                    R.visit(("freed",))
                    continue
                R.log.append([idx, now0, seam["alarm"], t_ret, c.freed])
                R.tr(f"[{idx}] wait: body finished at {now0}, alarm {seam['alarm'] if not c.freed else None}, returned at {t_ret}, freed={c.freed}")
                if c.freed:
                    if seam["calls"] != calls0 or t_ret != now0:
                        R.fail("wait_after_free", idx, op, "wait() after free() consulted the notifier or moved time instead of returning immediately")
                    R.probe("wait_after_free")
                    R.shape.append(("wait_freed",))
                    R.visit(("freed_wait",))
                    continue
                c.k += 1
                want_alarm = c.t0 + c.k * c.p
                if seam["calls"] != calls0 + 1:
                    R.fail("wait_did_not_wait", idx, op, "wait() returned without waiting on the notifier")
                if seam["alarm"] != want_alarm:
                    R.fail("alarm_off_grid", idx, op, f"alarm for wait #{c.k} is {seam['alarm']}, the grid t0 + k*P gives {want_alarm} (t0={c.t0}, P={c.p} us)")
                if t_ret < want_alarm:
                    R.fail("returned_early", idx, op, f"wait #{c.k} returned at {t_ret}, before t0 + k*P = {want_alarm}")
                slept = now0 < want_alarm
                late = op[1] if slept else 0
                if t_ret != max(now0, want_alarm) + late:
                    R.fail("returned_late", idx, op, f"wait #{c.k}: body finished at {now0}, grid instant {want_alarm}, wake-up delay {late}; returned at {t_ret}")
                cls = "slept" if slept else ("exact" if now0 == want_alarm else "overrun")
                R.probe("wait_" + cls)
                if cls == "overrun":
                    c.overrun_seen = True
                    R.fault("loop_overrun")
                elif c.overrun_seen and cls == "slept":
                    R.probe("caught_up_after_overrun")
                    R.nontrivial = True
                R.shape.append(("wait", cls, bool(late)))
                R.visit(("wait", cls))
            elif kind == "free":
                if c.nd is None or c.freed and op[1] != "free_twice":
                    continue
                n0 = hs.getNumNotifiers()
                try:
                    if op[1] == "exit":
                        c.nd.__exit__(None, None, None)
                    else:
                        c.nd.free()
                        if op[1] == "free_twice":
                            c.nd.free()
                except Exception as e:
                    R.fail("exception", idx, op, f"{type(e).__name__}: {e}")
                if not c.freed and hs.getNumNotifiers() != n0 - 1:
                    R.fail("notifier_not_released", idx, op, f"HAL still has {hs.getNumNotifiers()} active notifiers after {op[1]} (had {n0})")
                # (a delay that had been released before owns no handle any more: the HAL may have handed the same
                #  handle value to the other live delay in the meantime)
                if not c.freed and c.handle in handles["live"]:
                    R.fail("notifier_not_released", idx, op, f"HAL notifier handle {c.handle} was stopped but never cleaned (leaked) by {op[1]}")
                if handles["double"]:
                    R.fail("notifier_double_release", idx, op, "the same HAL notifier handle was cleaned twice")
                c.freed = True
                R.probe("freed_by_" + op[1])
                R.shape.append(("free", op[1]))
                R.visit(("freed",))
    finally:
        hal.waitForNotifierAlarm = real_wait
        hal.updateNotifierAlarm = real_update
        hal.initializeNotifier, hal.cleanNotifier = real_init, real_clean
        for c in (cA, cB):
            if c.nd is not None:
                try:
                    c.nd.free()
                except Exception:
                    pass


# ------------------------------------------------------------------ C19

class _Joy:
    def __init__(self):
        self.level = False
        self.reads = 0
        self.reenter = None

    def getRawButton(self, n):
        self.reads += 1
        if self.reenter is not None:
            f, self.reenter = self.reenter, None
            f()
        return self.level


class _LatchJoy(_Joy):
    """like wpilib.Joystick: besides the level there is a press-event latch (set by every press, cleared by reading it)"""

    def __init__(self):
        super().__init__()
        self.latched = False

    def getRawButtonPressed(self, n):
        r, self.latched = self.latched, False
        return r

    def getRawButtonReleased(self, n):
        return False


class _ClockShim:
    def __init__(self, world):
        self.world = world

    def monotonic(self):
        return self.world.now_us() * 1e-6


class _Capture(logging.Handler):
    def __init__(self):
        super().__init__(level=logging.DEBUG)
        self.records = []

    def emit(self, record):
        self.records.append(record)


def _exec_c19(plan, world, R):
    cfg = plan["config"]
    kind = cfg["kind"]
    exact = cfg["dyadic"]
    R.probe("kind_" + kind)
    if kind in ("toggle", "toggle_db"):
        _toggle(plan, world, R, cfg, exact)
    elif kind == "debouncer":
        _debouncer(plan, world, R, cfg, exact)
    elif kind == "pfilter":
        _pfilter(plan, world, R, cfg, exact)
    else:
        _watchdog(plan, world, R, cfg, exact)


def _now_s(world):
    return world.wpilib.Timer.getFPGATimestamp()


def _toggle(plan, world, R, cfg, exact):
    from robotpy_ext.control.toggle import Toggle
    joy = _LatchJoy() if cfg.get("latching_joystick") else _Joy()
    period = cfg["period"] if cfg["kind"] == "toggle_db" else None
    tg = Toggle(joy, 3, period) if period is not None else Toggle(joy, 3)
    state = False            # model: the toggle's state
    prev_sig = False         # model: previous sampled (debounced) signal; the toggle starts "released"
    latest = None            # model: instant of the last press the debouncer registered
    changes = []
    for idx, op in enumerate(plan["ops"]):
        if op[0] == "adv":
            world.advance(op[1])
            continue
        if op[0] == "tap":
            # a press and release that no sample sees (the button is up at the samples before and after)
            if hasattr(joy, "latched"):
                joy.latched = True
            R.fault("tap_between_samples")
            continue
        if op[0] != "sample":
            continue
        if bool(op[1]) and not joy.level and hasattr(joy, "latched"):
            joy.latched = True
        joy.level = bool(op[1])
        now = _now_s(world)
        # the signal this sample sees: the raw level, or with a debounce period a press held steady for that period
        if period is None:
            sig = joy.level
        else:
            if latest is not None and not exact and abs((now - latest) - period) < BAND:
                raise Inconclusive("sample inside the float dead band of the debounce window")
            if latest is not None and now - latest < period:
                sig = True
            elif joy.level:
                sig = True
                latest = now
            else:
                sig = False
        if len(op) > 3 and op[3]:
            # a nested sample at the same instant and level, taken while the outer one is reading the button: the
            # two together are one sample as far as edges are concerned
            joy.reenter = {"on": lambda: tg.on, "off": lambda: tg.off, "get": tg.get}[op[3]]
            R.fault("reentrant_sample")
        try:
            if op[2] == "get":
                got = tg.get()
                val = got
            elif op[2] == "bool":
                got = bool(tg)
                val = got
            elif op[2] == "on":
                got = tg.on
                val = got
            else:
                got = tg.off
                val = (not got) if isinstance(got, bool) else got
        except Exception as e:
            R.fail("exception", idx, op, f"{type(e).__name__}: {e}")
        joy.reenter = None
        edge = sig and not prev_sig
        if edge:
            state = not state
            changes.append(now)
            R.probe("toggle_changes")
            if period is not None and len(changes) > 1:
                R.probe("debounced_second_change")
        elif sig:
            R.probe("held_sample")
        prev_sig = sig
        R.log.append([idx, world.now_us(), op[1], op[2], got if isinstance(got, bool) else repr(got)])
        R.tr(f"[{idx}] t={world.now_us()} level={op[1]} {op[2]} -> {got!r}  (model: signal {sig}, {'edge, ' if edge else ''}toggle {'on' if state else 'off'})")
        if not isinstance(got, bool):
            R.fail("toggle.type", idx, op, f"{op[2]} returned {got!r}")
        if val is not state:
            R.fail("toggle.state", idx, op, f"{op[2]} returned {got!r}; after {'a' if edge else 'no'} released->pressed edge at this sample the toggle must be {'on' if state else 'off'}")
        # on is always the negation of off; a further sample at the same instant and level is not an edge
        a, b = tg.on, tg.off
        if not (isinstance(a, bool) and isinstance(b, bool)) or a is b:
            R.fail("toggle.on_off", idx, op, f"on={a!r} off={b!r}")
        if a is not state:
            R.fail("toggle.resample", idx, op, "sampling again at the same instant with the same button level changed the toggle")
        if period is not None and len(changes) >= 2 and changes[-1] - changes[-2] < period - (0 if exact else 1e-9):
            R.fail("toggle.debounce_period", idx, op, f"two changes {changes[-2]!r} and {changes[-1]!r} less than {period} s apart")
        R.shape.append((bool(op[1]), op[2], edge))
        R.visit((state, sig))
    R.nontrivial = len(changes) >= 2


def _debouncer(plan, world, R, cfg, exact):
    from robotpy_ext.control.button_debouncer import ButtonDebouncer
    joy = _Joy()
    period = cfg["period"]
    db = ButtonDebouncer(joy, 2, period)
    last_true = None
    trues = 0
    for idx, op in enumerate(plan["ops"]):
        if op[0] == "adv":
            world.advance(op[1])
            continue
        if op[0] == "setperiod":
            db.set_debounce_period(op[1])
            period = float(op[1])
            R.fault("period_changed")
            continue
        if op[0] != "sample":
            continue
        joy.level = bool(op[1])
        now = _now_s(world)
        try:
            got = db.get() if op[2] == "get" else bool(db)
        except Exception as e:
            R.fail("exception", idx, op, f"{type(e).__name__}: {e}")
        R.log.append([idx, world.now_us(), op[1], bool(got)])
        R.tr(f"[{idx}] t={world.now_us()} level={op[1]} -> {got!r} (last True at {last_true}, period {period})")
        if not isinstance(got, bool):
            R.fail("debouncer.type", idx, op, f"returned {got!r}")
        ref = last_true if last_true is not None else 0.0
        gap = now - ref
        band = (not exact) and abs(gap - period) < BAND
        if got:
            if not joy.level:
                R.fail("debouncer.true_while_released", idx, op, "get() returned True although the button is not pressed")
            if last_true is not None and not gap > period and not band:
                R.fail("debouncer.too_soon", idx, op, f"two True results {gap!r} s apart, period is {period} s")
            last_true = now
            trues += 1
            R.probe("debouncer_true")
        else:
            # must fire when pressed and more than a period has passed since the last True
            # (before the first True "the last True" is undefined unless more than a period has passed since boot)
            if joy.level and gap > period and not band:
                R.fail("debouncer.missed", idx, op, f"button pressed, {gap!r} s since the last True (period {period}), but get() returned False")
            if joy.level:
                R.probe("debouncer_suppressed")
        R.shape.append((bool(op[1]), bool(got)))
        R.visit((bool(op[1]), bool(got)))
    R.nontrivial = trues >= 2


def _pfilter(plan, world, R, cfg, exact):
    import robotpy_ext.misc.periodic_filter as pf
    shim = _ClockShim(world)
    real_time = pf.time
    pf.time = shim
    try:
        period = cfg["period"]
        flt = pf.PeriodicFilter(period, bypass_level=cfg["bypass"])
        passed_low = []
        for idx, op in enumerate(plan["ops"]):
            if op[0] == "adv":
                world.advance(op[1])
                continue
            if op[0] != "record":
                continue
            now = shim.monotonic()
            rec = logging.LogRecord(op[2] if len(op) > 2 else "x", op[1], __file__, 1, "msg", None, None)
            if len(op) > 2 and op[2] != "x":
                R.fault("records_from_several_loggers")
            try:
                got = flt.filter(rec)
            except Exception as e:
                R.fail("exception", idx, op, f"{type(e).__name__}: {e}")
            R.log.append([idx, world.now_us(), op[1], bool(got)])
            R.tr(f"[{idx}] t={world.now_us()} level={op[1]} -> {got!r}")
            if op[1] >= cfg["bypass"]:
                R.probe("pfilter_bypass_record")
                if not got:
                    R.fail("pfilter.bypass_blocked", idx, op, f"record at level {op[1]} >= bypass level {cfg['bypass']} was filtered out")
            elif got:
                if passed_low:
                    gap = now - passed_low[-1]
                    if not gap > period and not ((not exact) and abs(gap - period) < BAND):
                        R.fail("pfilter.too_often", idx, op, f"two lower-level records passed {gap!r} s apart, period is {period} s")
                passed_low.append(now)
                R.probe("pfilter_low_passed")
            else:
                R.probe("pfilter_low_blocked")
            R.shape.append((op[1] >= cfg["bypass"], bool(got)))
            R.visit((op[1] >= cfg["bypass"], bool(got)))
        R.nontrivial = len(passed_low) >= 2
    finally:
        pf.time = real_time


def _watchdog(plan, world, R, cfg, exact):
    from robotpy_ext.misc.simple_watchdog import SimpleWatchdog
    cap = _Capture()
    lg = logging.getLogger("simple_watchdog")
    lg.addHandler(cap)
    lg.setLevel(logging.DEBUG)
    try:
        wd = SimpleWatchdog(cfg["period"])
        timeout_us = cfg["period_us"]
        last_reset = None
        warns = []
        for idx, op in enumerate(plan["ops"]):
            if op[0] == "adv":
                world.advance(op[1])
                continue
            if op[0] != "wd":
                continue
            now = world.now_us()
            n0 = len(cap.records)
            try:
                what = op[1]
                got = None
                if what in ("reset", "enable"):
                    getattr(wd, what)()
                    last_reset = now
                elif what == "setTimeout":
                    wd.setTimeout(op[2])
                    timeout_us = round(op[2] * 1e6)
                    last_reset = now
                    if abs(wd.getTimeout() - op[2]) > 1e-6:
                        R.fail("watchdog.timeout_readback", idx, op, f"getTimeout() = {wd.getTimeout()!r} after setTimeout({op[2]!r})")
                elif what == "addEpoch":
                    wd.addEpoch(f"e{idx}")
                elif what == "disable":
                    wd.disable()
                elif what == "isExpired":
                    got = wd.isExpired()
                elif what == "printIfExpired":
                    wd.printIfExpired()
            except Exception as e:
                R.fail("exception", idx, op, f"{type(e).__name__}: {e}")
            new = [r for r in cap.records[n0:] if r.levelno >= logging.WARNING]
            R.log.append([idx, now, op[1], got, len(new)])
            R.tr(f"[{idx}] t={now} {op[1:]} -> {got!r} warnings={len(new)} (last reset {last_reset}, timeout {timeout_us} us)")
            if what == "isExpired" and last_reset is not None:
                want = (now - last_reset) > timeout_us
                R.probe("watchdog_expired_" + str(want))
                if got is not want:
                    R.fail("watchdog.expiry", idx, op, f"isExpired() = {got!r}; {now - last_reset} us since the last reset, timeout {timeout_us} us")
            if new:
                if what != "printIfExpired":
                    R.fail("watchdog.unexpected_warning", idx, op, "an overrun warning was logged outside printIfExpired()")
                if len(new) > 1:
                    R.fail("watchdog.rate", idx, op, f"{len(new)} overrun warnings from one printIfExpired()")
                if last_reset is not None and not (now - last_reset) > timeout_us:
                    R.fail("watchdog.warned_not_expired", idx, op, "overrun warning although the watchdog has not expired")
                if warns and (now - warns[-1]) < 1_000_000:
                    R.fail("watchdog.rate", idx, op, f"two overrun warnings {now - warns[-1]} us apart")
                warns.append(now)
                R.probe("watchdog_warning")
            elif what == "printIfExpired" and last_reset is not None and (now - last_reset) > timeout_us:
                R.probe("watchdog_warning_rate_limited")
            R.shape.append((op[1], got, bool(new)))
            R.visit((op[1], got, bool(new)))
        R.nontrivial = len(warns) >= 1 and R.probes.get("watchdog_expired_True", 0) + R.probes.get("watchdog_expired_False", 0) >= 2
    finally:
        lg.removeHandler(cap)


def simplify(plan):
    ops = plan["ops"]
    for i in range(len(ops) - 1):
        if ops[i][0] in ("adv", "body") and ops[i + 1][0] == ops[i][0]:
            yield dict(plan, ops=ops[:i] + [[ops[i][0], ops[i][1] + ops[i + 1][1]]] + ops[i + 2:])
    for i, op in enumerate(ops):
        if op[0] == "wait" and op[1]:
            yield dict(plan, ops=ops[:i] + [["wait", 0]] + ops[i + 1:])
        if op[0] in ("adv", "body") and op[1] > 0:
            g = GRID_US if plan["config"]["dyadic"] else 1
            for nv in (0, op[1] // 2 // g * g):
                if nv < op[1]:
                    yield dict(plan, ops=ops[:i] + [[op[0], nv]] + ops[i + 1:])
    if plan["config"].get("boot_us"):
        yield dict(plan, config=dict(plan["config"], boot_us=0))
