"""Engine ROBOT: a whole MagicRobot lifetime under the inverted, single-threaded
control loop (properties C05, C06, C07, C10, C11).

The real MagicRobot.startCompetition() runs on the main thread of a forked child.
hal.waitForNotifierAlarm is wrapped: the scheduler advances the paused HAL clock
to the notifier alarm (or later), delivers the plan's events and only then calls
the real wait, which returns at once.  Every generated user callback is a
scheduler yield point as well.
"""
import os
import random
import sys

from simkit import util
from simkit.util import GRID_US, Inconclusive, Violation
from models.robot_model import RobotModel, ModelFault, fb_key, fb_value, period_us, index_events
from models import robot_invariants

ENGINE = "robot"
NEEDS_RUNDIR = True

OWNED = {
    "C05": {"periodic_order", "execute_order", "timing", "mode_nt", "exception", "hang"},
    "C06": {"lifecycle", "execute_order", "setup_obs", "exception", "hang"},
    "C07": {"periodic_order", "execute_order", "lifecycle", "outcome", "exception", "hang"},
    "C10": {"reset_values", "exception", "hang"},
    "C11": {"feedback_nt", "feedback_calls", "feedback_type", "exception", "hang"},
    # integration runs (a StateMachine component / AutonomousStateMachine / StatefulAutonomous mode inside a real MagicRobot)
    "C01": {"sm_behaviour", "exception", "hang"}, "C02": {"sm_behaviour", "exception", "hang"},
    "C03": {"sm_behaviour", "exception", "hang"}, "C04": {"sm_behaviour", "exception", "hang"},
    "C13": {"sm_behaviour", "exception", "hang"}, "C15": {"sm_behaviour", "exception", "hang"},
    "C19": {"exception", "hang"},
}
def _flit(d):
    """source literal of a duration (NaN has no literal)"""
    return repr(d) if d == d else "float('nan')"


INTEGRATION = ("C01", "C02", "C03", "C04", "C13", "C15", "C19")

HINTS = {
    "int": ("int", "int", [0, 1, -3, 7, 2**40, 12]),
    "float": ("float", "double", [0.0, 1.5, -2.25, 1e9, 3.0]),
    "bool": ("bool", "boolean", [True, False, False, True]),
    "str": ("str", "string", ["", "a", "hello world", "x/y"]),
    "floats": ("Sequence[float]", "double[]", [[1.0, 2.0], [], [3.5]]),
    "ints": ("list[int]", "int[]", [[1], [2, 3], []]),
    "strs": ("tuple[str, ...]", "string[]", [["a"], ["b", "c"]]),
    "bools": ("Sequence[bool]", "boolean[]", [[True], [False, True]]),
    "rot": ("Rotation2d", "struct:Rotation2d", [{"rot": 0.0}, {"rot": 0.5}, {"rot": 1.0}]),
    "trs": ("list[Translation2d]", "struct:Translation2d[]", [[{"tr": [1.0, 2.0]}], [], [{"tr": [0.0, 0.0]}, {"tr": [3.0, -1.0]}]]),
    # a mutable struct: the getter may hand out the same instance every time, updated in place
    "cs": ("ChassisSpeeds", "struct:ChassisSpeeds", [{"cs": [1.0, 0.0, 0.5]}, {"cs": [0.0, 2.0, 0.0]}, {"cs": [-1.5, 0.25, 3.0]}]),
    None: (None, None, None),
}
UNTYPED_POOLS = [
    ("double", [1.0, 2.5, -1.0, 2.5]), ("boolean", [True, False, True]), ("string", ["u", "v", "u"]),
    ("double", [3, 4, 5]),   # python ints published through setValue become doubles
]
MODE_SITES = {"disabled": ("robot.disabledInit", "robot.disabledPeriodic"), "teleop": ("robot.teleopInit", "robot.teleopPeriodic"),
              "auto": ("robot.autonomousInit", None), "test": ("robot.testInit", "robot.testPeriodic")}


# =============================================================== generation

def gen_config(rng, prop, tier="quick"):
    dyadic = rng.random() < 0.5
    ncomp = rng.choice([0, 1, 2, 2, 3, 3, 4, 5])
    if prop in ("C10",) and ncomp == 0:
        ncomp = 2
    if prop == "C11" and ncomp == 0 and rng.random() < 0.7:
        ncomp = 1
    comps = []
    for i in range(ncomp):
        hooks = [h for h in ("setup", "on_enable", "on_disable") if rng.random() < (0.75 if prop == "C06" else 0.55)]
        resets, plain = [], []
        p_reset = 0.8 if prop == "C10" else 0.3
        for j in range(2):
            if rng.random() < p_reset:
                r = {"attr": f"r{j}" if rng.random() < 0.85 else f"_r{j}",       # "private" names are reset like any other
                     "default": rng.choice([0, False, None, 1.5, "idle", 7]), "inherited": rng.random() < 0.3, "override": None}
                if r["inherited"] and rng.random() < 0.4:
                    # the subclass redeclares the inherited marker with another default: the component's own declaration counts
                    r["override"] = "marker"
                    r["base_default"] = rng.choice([-1, True, "base", 9.5])
                resets.append(r)
        if rng.random() < (0.3 if prop == "C10" else 0.08):
            # diamond: Root declares the marker, the base listed SECOND redeclares it (another default, or a plain attribute);
            # Python's MRO makes the redeclaration win over what the first-listed base merely inherits
            if rng.random() < 0.65:
                resets.append({"attr": "rd", "default": rng.choice([1.5, "right", 9]), "inherited": False, "override": None, "diamond": True,
                               "base_default": rng.choice([0.0, "root", -1]), "swap": rng.random() < 0.5})
            else:
                plain.append({"attr": "pd", "default": rng.choice(["keep", 4]), "shadows_marker": False, "diamond": True, "base_default": rng.choice([0, "root"]),
                              "swap": rng.random() < 0.5})
        for j in range(1 if rng.random() < 0.6 else 0):
            a = {"attr": f"p{j}", "default": rng.choice([0, "x", False]), "shadows_marker": False}
            if rng.random() < 0.25:
                # an ordinary attribute that replaces a will_reset_to marker of the base class: never touched by the reset
                a["shadows_marker"] = True
                a["base_default"] = rng.choice([-1, "base", 3.5])
            plain.append(a)
        fbs = []
        p_fb = 0.8 if prop == "C11" else 0.35
        for j in range(2):
            if rng.random() < p_fb:
                fbs.append(_gen_fb(rng, j))
        late = None
        if "setup" in hooks and ("on_enable" in hooks or "on_disable" in hooks) and rng.random() < (0.3 if prop == "C06" else 0.1):
            # the component installs its on_enable / on_disable on the instance in setup() (the first moment injected
            # variables exist); "replace": the class also has hooks of those names, which must never be called
            late = rng.choice(["assign", "replace"])
        comps.append({"name": f"c{i}", "hooks": hooks, "resets": resets, "plain_attrs": plain, "feedbacks": fbs,
                      "inject_dep": rng.random() < 0.5, "inject_comp": None, "in_base_robot": False, "late_hooks": late})
    for i, c in enumerate(comps):
        if len(comps) > 1 and rng.random() < 0.4:
            c["inject_comp"] = rng.choice([o["name"] for o in comps if o is not c])
    if len(comps) >= 2 and rng.random() < 0.3:
        # two components of the identical class (left/right flywheel): same declarations, separate instances
        i = rng.randint(1, len(comps) - 1)
        j = rng.randint(0, i - 1)
        for o in comps:
            if o.get("inject_comp") == comps[i]["name"]:
                o["inject_comp"] = None
        comps[i] = dict(comps[j], name=comps[i]["name"], clone_of=comps[j]["name"], in_base_robot=comps[i]["in_base_robot"])
    elif len(comps) >= 2 and rng.random() < 0.25:
        # a component whose class derives from an earlier component's class: inherits its declarations, adds its own
        i = rng.randint(1, len(comps) - 1)
        j = rng.randint(0, i - 1)
        for o in comps:
            if o.get("inject_comp") == comps[i]["name"]:
                o["inject_comp"] = None
        base = comps[j]
        own_resets = [{"attr": "rx", "default": rng.choice([0, False, 2.5, "x"]), "inherited": False, "override": None, "own": True}]
        inherited = []
        for r in base["resets"]:
            r2 = dict(r)
            if rng.random() < 0.3:
                r2 = dict(r, default=rng.choice([11, "sub", True, -2.5]), own=True, inherited=False, override=None)   # redeclared with another default
            inherited.append(r2)
        comps[i] = dict(base, name=comps[i]["name"], extends=base["name"], in_base_robot=comps[i]["in_base_robot"],
                        resets=inherited + own_resets)
    split = len(comps) >= 2 and rng.random() < 0.4
    if split:
        k = rng.randint(1, len(comps) - 1)
        for c in comps[:k]:
            c["in_base_robot"] = True
    robot_fbs = [_gen_fb(rng, j, owner="robot") for j in range(2) if rng.random() < (0.5 if prop == "C11" else 0.2)]
    nmodes = rng.choice([0, 1, 1, 2, 3])
    modes = []
    for i in range(nmodes):
        modes.append({"module": f"m{i}", "cls": f"Mode{i}", "name": rng.choice(["Alpha", "Two Ball", "zz", "Drive_Fwd", "B"]) + str(i), "default": False,
                      # a mode object that evaluates false (e.g. a scripted mode whose __len__ is the number of steps left)
                      "falsy": rng.random() < 0.12})
    if modes and rng.random() < 0.7:
        rng.choice(modes)["default"] = True
    if dyadic:
        period = rng.choice([1, 1, 2, 4]) / 64.0
    else:
        period = rng.choice([0.02, 0.02, 0.01, 0.005, 0.05])
    cfg = {
        "dyadic": dyadic, "period": period, "use_teleop_in_auto": rng.random() < 0.35, "fms": rng.random() < (0.6 if prop in ("C07", "C10", "C11") else 0.3),
        "components": comps, "robot_feedbacks": robot_fbs, "modes": modes, "split_robot": split,
        "auto_selector_initial": (rng.choice([m["name"] for m in modes] + ["nonsense"]) if modes and rng.random() < 0.25 else None),
        "cap_waits": rng.choice([4, 8, 12, 20, 30, 45]) if tier != "thorough" else rng.choice([4, 8, 12, 20, 30, 45, 70, 100]),
        "period_on_instance": rng.random() < 0.15,
        "boot_us": (rng.choice([0, 64, 6400]) * GRID_US) if dyadic else rng.choice([0, 181546, 5_000_003]),
        # legal settings of the error-report rate limit: never repeat (inf), always (0), NaN
        "error_report_interval": rng.choice(["inf", "nan", 0, 1e-9]) if rng.random() < (0.3 if prop == "C07" else 0.08) else None,
        "pre_robot": rng.random() < 0.1,
    }
    return cfg


def _gen_fb(rng, j, owner="comp"):
    hint = rng.choice(["int", "float", "bool", "str", "floats", "ints", "strs", "bools", "rot", "trs", "cs", None, None])
    name = rng.choice([f"get_v{j}", f"v{j}", f"get_state{j}", f"is_ok{j}", f"get_v{j}", f"v{j}", f"_read{j}"])
    fb = {"name": name, "key": (rng.choice([f"k{j}", f"sub/key{j}", "Name With Space" + str(j), f"get_k{j}", f"get_{name}"]) if rng.random() < 0.35 else None), "hint": hint,
          "inplace": False, "constant": rng.random() < 0.25, "quoted_hint": rng.random() < 0.25}
    if hint is None:
        t, vals = rng.choice(UNTYPED_POOLS)
        fb["nt_type"], fb["values"] = t, list(vals)
    else:
        fb["nt_type"], fb["values"] = HINTS[hint][1], list(HINTS[hint][2])
    rng.shuffle(fb["values"])
    if fb["constant"]:
        fb["values"] = fb["values"][:1]
    if (isinstance(fb["values"][0], list) or hint == "cs") and rng.random() < 0.5:
        fb["inplace"] = True       # the getter returns the same list / struct object every time, updated in place
    return fb


def all_sites(cfg):
    """Call sites at which events may be placed, by category."""
    per = {"init": [], "periodic": [], "lifecycle": [], "execute": [], "fb": [], "mode": []}
    for c in cfg["components"]:
        for h in ("on_enable", "on_disable"):
            if h in c["hooks"]:
                per["lifecycle"].append(f"{c['name']}.{h}")
        per["execute"].append(f"{c['name']}.execute")
        for fb in c["feedbacks"]:
            per["fb"].append(f"{c['name']}.fb.{fb['name']}")
    for fb in cfg["robot_feedbacks"]:
        per["fb"].append(f"robot.fb.{fb['name']}")
    per["init"] = ["robot.disabledInit", "robot.teleopInit", "robot.autonomousInit", "robot.testInit"]
    per["periodic"] = ["robot.disabledPeriodic", "robot.teleopPeriodic", "robot.testPeriodic", "robot.robotPeriodic"]
    for m in cfg["modes"]:
        for h in ("on_enable", "on_iteration", "on_disable"):
            per["mode"].append(f"mode.{m['name']}.{h}")
    return per


def _rand_ds(rng, keep_fms=True, fms=None):
    mode = rng.choice(["teleop", "auto", "test"])
    en = rng.random() < 0.7
    return ["ds", int(en), mode, fms]


# ---- C07: systematic fault enumeration (every call site x mode schedule x visit kind x FMS) ------------

def _enum_layout(k):
    def comp(name, hooks, fbs, inject_comp=None, in_base=False):
        return {"name": name, "hooks": hooks, "resets": [{"attr": "r0", "default": 0, "inherited": False}], "plain_attrs": [],
                "feedbacks": fbs, "inject_dep": True, "inject_comp": inject_comp, "in_base_robot": in_base}

    def fb(name, hint, key=None):
        return {"name": name, "key": key, "hint": hint, "nt_type": HINTS[hint][1], "values": list(HINTS[hint][2])}

    base = {"dyadic": True, "period": 1 / 64.0, "fms": True, "split_robot": False, "auto_selector_initial": None, "cap_waits": 8, "boot_us": 0,
            "robot_feedbacks": [fb("get_rv", "int")]}
    if k == 0:
        return dict(base, use_teleop_in_auto=True, components=[comp("c0", ["setup", "on_enable", "on_disable"], [fb("get_a", "float")]),
                                                                comp("c1", ["on_enable", "on_disable"], [fb("b", "str", "kb")], inject_comp="c0")],
                    modes=[{"module": "m0", "cls": "Mode0", "name": "Alpha0", "default": True}])
    if k == 1:
        return dict(base, dyadic=False, period=0.02, use_teleop_in_auto=False, split_robot=True,
                    components=[comp("c0", ["on_enable"], [], in_base=True), comp("c1", ["setup", "on_disable"], [fb("get_x", "bools")]),
                                comp("c2", ["on_enable", "on_disable"], [])],
                    modes=[{"module": "m0", "cls": "Mode0", "name": "B0", "default": False}, {"module": "m1", "cls": "Mode1", "name": "Two Ball1", "default": True}])
    return dict(base, use_teleop_in_auto=True, components=[comp("c0", ["on_enable", "on_disable"], [fb("v0", "ints")])], modes=[], robot_feedbacks=[])


_ENUM_SCHEDS = {
    "teleop": (8, [(1, ["ds", 1, "teleop", None]), (6, ["ds", 0, "teleop", None])]),
    "auto": (8, [(1, ["ds", 1, "auto", None]), (6, ["ds", 0, "auto", None])]),
    "test": (8, [(1, ["ds", 1, "test", None]), (6, ["ds", 0, "test", None])]),
    "disabled": (5, []),
    "tour": (10, [(1, ["ds", 1, "teleop", None]), (3, ["ds", 1, "auto", None]), (5, ["ds", 1, "test", None]), (7, ["ds", 1, "teleop", None]), (8, ["ds", 0, "teleop", None])]),
    "auto_exit": (8, [(1, ["ds", 1, "auto", None]), (4, ["end"])]),
}
_ENUM_CACHE = []


def c07_enum_space():
    if not _ENUM_CACHE:
        for k in range(3):
            cfg = _enum_layout(k)
            per = all_sites(cfg)
            sites = per["lifecycle"] + per["execute"] + per["init"] + per["periodic"] + per["fb"] + per["mode"]
            for site in sites:
                for sched in _ENUM_SCHEDS:
                    for visit in (1, 3, "*"):
                        for fms in (1, 0):
                            _ENUM_CACHE.append((k, site, sched, visit, fms))
    return _ENUM_CACHE


def c07_enum_plan(seed, j):
    k, site, sched, visit, fms = c07_enum_space()[j]
    cfg = dict(_enum_layout(k), fms=bool(fms))
    cap, packets = _ENUM_SCHEDS[sched]
    cfg["cap_waits"] = cap
    ops = [{"site": "wait", "visit": v, "acts": [list(a)]} for v, a in packets]
    ops.append({"site": site, "visit": visit, "acts": [["raise"]]})
    return {"engine": ENGINE, "property": "C07", "seed": seed, "config": cfg, "ops": ops,
            "enum": {"case": j, "layout": k, "site": site, "schedule": sched, "visit": visit, "fms": fms}}


def generate_integration(seed, prop, tier, index=0):
    """A StateMachine component (C01-C04), an AutonomousStateMachine mode (C13) or a StatefulAutonomous mode (C15)
    inside a real MagicRobot: engage() comes from teleopPeriodic / the autonomous mode, on_disable() from real mode
    changes, pacing from the real NotifierDelay, tm from the selector's timer."""
    from engines import sm as sm_engine, sa as sa_engine
    rng = random.Random(seed ^ 0x5A5A)
    dyadic = rng.random() < 0.6
    period = (rng.choice([1, 1, 2]) / 64.0) if dyadic else rng.choice([0.02, 0.02, 0.01, 0.05])

    def plain_comp(i):
        return {"name": f"c{i}", "hooks": [h for h in ("setup", "on_enable", "on_disable") if rng.random() < 0.5], "resets": [], "plain_attrs": [],
                "feedbacks": [], "inject_dep": rng.random() < 0.5, "inject_comp": None, "in_base_robot": False}

    def machine_cfg(p):
        for _ in range(50):
            m = sm_engine.gen_config(rng, p)
            if m["dyadic"] == dyadic:
                break
        m["dyadic"] = dyadic
        sts = []
        for st in m["states"]:
            d = {k: st[k] for k in ("name", "kind", "must_finish") if k in st}
            if st["kind"] == "timed":
                d["duration"], d["next"] = st["duration"], st.get("next")
                if not dyadic and isinstance(d["duration"], float):
                    d["duration"] = round(d["duration"], 3)
            sts.append(d)
        return {"states": sts, "first": m["first"], "default": m.get("default")}

    comps = [plain_comp(i) for i in range(rng.choice([0, 1, 2]))]
    modes = []
    # C02 / C03 speak about every StateMachine: in part of the runs the machine is the selected autonomous mode
    # (an AutonomousStateMachine driven by the selector) instead of a component
    as_mode = prop == "C13" or (prop in ("C02", "C03") and rng.random() < 0.4)
    if prop in ("C01", "C02", "C03", "C04") and not as_mode:
        c = plain_comp(len(comps))
        c["hooks"] = sorted(set(c["hooks"]) | {"on_disable"})
        c["machine"] = machine_cfg(prop)
        comps.insert(rng.randint(0, len(comps)), c)
        for i, x in enumerate(comps):
            x["name"] = f"c{i}"
        if rng.random() < 0.5:
            modes.append({"module": "m0", "cls": "Mode0", "name": "Plain0", "default": True, "kind": "plain"})
    elif as_mode:
        modes.append({"module": "m0", "cls": "Mode0", "name": rng.choice(["Auto A", "two_ball"]), "default": True, "kind": "asm", "machine": machine_cfg("C13")})
    else:
        for _ in range(50):
            m = sa_engine.gen_config(rng)
            if m["dyadic"] == dyadic:
                break
        sts = [{k: st[k] for k in ("name", "kind", "duration", "next") if k in st} for st in m["states"]]
        modes.append({"module": "m0", "cls": "Mode0", "name": rng.choice(["Drive Forward", "M"]), "default": True, "kind": "sa",
                      "machine": {"states": sts, "first": m["first"]}})
    cap = rng.choice([10, 20, 40, 70] if tier == "quick" else [12, 30, 60, 110])
    cfg = {"dyadic": dyadic, "period": period, "use_teleop_in_auto": rng.random() < 0.4, "fms": rng.random() < 0.3, "components": comps,
           "robot_feedbacks": [], "modes": modes, "split_robot": False, "auto_selector_initial": None, "cap_waits": cap,
           "boot_us": (rng.choice([0, 64, 6400]) * GRID_US) if dyadic else rng.choice([0, 181546, 5_000_003])}
    ops = []
    g = GRID_US if dyadic else 1000
    p_us = period_us(cfg)

    def add(site, visit, *acts):
        ops.append({"site": site, "visit": visit, "acts": [list(a) for a in acts]})

    # mode sessions: mostly the mode the machine lives in, interrupted by disables / other modes
    home = "teleop" if (prop in ("C01", "C02", "C03", "C04") and not as_mode) else "auto"
    k = 0
    add("wait", 1, ["ds", 1, home, None])
    while k < cap:
        k += rng.choice([2, 4, 8, 15, 30])
        if k < cap:
            r = rng.random()
            if r < 0.45:
                add("wait", k, ["ds", 1, home, None])
            elif r < 0.7:
                add("wait", k, ["ds", 0, home, None])
            else:
                add("wait", k, ["ds", 1, rng.choice(["teleop", "auto", "test"]), None])
    per = all_sites(cfg)
    anysites = per["init"] + per["periodic"] + per["lifecycle"] + per["execute"] + per["mode"]
    for _ in range(rng.choice([0, 0, 1, 2])):
        add(rng.choice(anysites), rng.randint(1, 12), ["stall", rng.choice([1, 2, 5]) * (max(g, (p_us // 2 // g) * g))])
    for _ in range(rng.choice([0, 0, 1])):
        add("wait", rng.randint(1, cap), ["late", rng.choice([1, 3]) * g])
    if rng.random() < 0.3:
        add(rng.choice(anysites + ["wait"]), rng.randint(2, cap), ["end"])
    # in-state actions of the embedded machine
    if prop in ("C01", "C02", "C03", "C04") and not as_mode:
        owner, mach = [(c["name"], c["machine"]) for c in comps if c.get("machine")][0]
    else:
        owner, mach = f"mode.{modes[0]['name']}", modes[0]["machine"]
    regular = [st["name"] for st in mach["states"] if st["kind"] != "default"]
    for _ in range(rng.choice([0, 0, 1, 2, 3])):
        st = rng.choice(regular)
        r = rng.random()
        if r < 0.55:
            add(f"{owner}.st.{st}", rng.randint(1, 8), ["smnext", rng.choice(regular)])
        elif r < 0.8 and prop != "C15":
            add(f"{owner}.st.{st}", rng.randint(1, 8), ["smnow", rng.choice(regular)])
        else:
            add(f"{owner}.st.{st}", rng.randint(1, 8), ["smdone"])
    # the dashboard edits a duration of the embedded machine (while disabled, between periods, mid-run)
    timed_states = [st for st in mach["states"] if st["kind"] == "timed"]
    if timed_states and prop != "C15":
        for _ in range(rng.choice([0, 0, 1, 2])):
            st = rng.choice(timed_states)
            v = sm_engine._dur_choices(dyadic, rng)
            v = int(v) if isinstance(st["duration"], int) else float(round(v, 3) if not dyadic else v)
            add(rng.choice(["wait", "wait", "robot.disabledPeriodic", "robot.robotPeriodic"]), rng.randint(1, cap), ["ntdur", owner, st["name"], v])
    # who calls engage()
    style = "always"
    if prop in ("C01", "C02", "C03", "C04") and not as_mode:
        srcs = ["robot.teleopPeriodic"] + ([f"mode.{modes[0]['name']}.on_iteration"] if modes else [])
        style = rng.choice(["always", "always", "bursts", "sparse"])
        for src in srcs:
            if style == "always":
                add(src, "*", ["engage", owner])
            else:
                on = True
                for v in range(1, cap + 1):
                    if rng.random() < (0.15 if style == "bursts" else 0.5):
                        on = not on
                    if on:
                        add(src, v, ["engage", owner])
    if prop != "C15" and style == "always" and (cfg["fms"] or rng.random() < 0.15) and rng.random() < 0.3:
        # a state function of the embedded machine raises (after doing what it does).  With the FMS attached the fault is
        # swallowed by the framework and the machine carries on in the next loop; engage() comes every loop in these runs,
        # so whether the abandoned iteration used up the request cannot be observed
        for _ in range(rng.choice([1, 1, 2])):
            add(f"{owner}.st.{rng.choice(regular)}", rng.choice([1, 1, 2, rng.randint(1, 10)]), ["raise"])
    if cfg["fms"] and rng.random() < 0.6:
        # with the FMS attached other callbacks may raise around the machine (swallowed): it must not notice
        fs = [s for s in per["execute"] + per["lifecycle"] + per["init"] + per["periodic"] if not s.startswith(owner + ".")]
        if owner in [c["name"] for c in comps] and "on_enable" in [c for c in comps if c["name"] == owner][0]["hooks"]:
            fs.append(f"{owner}.on_enable")
        for _ in range(rng.choice([1, 2])):
            if fs:
                add(rng.choice(fs), rng.choice([1, 2, rng.randint(1, 12), "*"]), ["raise"])
    return {"engine": ENGINE, "property": prop, "seed": seed, "config": cfg, "ops": ops, "integration": True}


def generate_c19(seed, tier, index=0):
    """The robot's loop watchdog under the real mode loops: every loop overruns, so the rate limit of the overrun
    warning is what keeps the console quiet - in every mode and across mode changes."""
    rng = random.Random(seed ^ 0xC19)
    dyadic = rng.random() < 0.5
    period = (rng.choice([1, 2]) / 64.0) if dyadic else rng.choice([0.02, 0.01, 0.05])
    comps = [{"name": f"c{i}", "hooks": [h for h in ("setup", "on_enable", "on_disable") if rng.random() < 0.5], "resets": [], "plain_attrs": [],
              "feedbacks": [], "inject_dep": False, "inject_comp": None, "in_base_robot": False} for i in range(rng.choice([1, 2, 3]))]
    modes = [{"module": "m0", "cls": "Mode0", "name": "Plain0", "default": True, "kind": "plain"}] if rng.random() < 0.7 else []
    cap = rng.choice([60, 100, 150] if tier == "quick" else [80, 150, 250])
    cfg = {"dyadic": dyadic, "period": period, "use_teleop_in_auto": rng.random() < 0.3, "fms": False, "components": comps,
           "robot_feedbacks": [], "modes": modes, "split_robot": False, "auto_selector_initial": None, "cap_waits": cap,
           "boot_us": (rng.choice([0, 64, 6400]) * GRID_US) if dyadic else rng.choice([0, 181546, 5_000_003])}
    p_us = period_us(cfg)
    ops = []

    def add(site, visit, *acts):
        ops.append({"site": site, "visit": visit, "acts": [list(a) for a in acts]})

    k = 0
    add("wait", 1, ["ds", 1, rng.choice(["teleop", "auto", "test"]), None])
    while k < cap:
        k += rng.choice([3, 10, 25, 40])
        if k < cap:
            add("wait", k, _rand_ds(rng))
    # a callback that is slower than the loop period, every time
    slow = rng.choice(["robot.robotPeriodic", "robot.robotPeriodic", comps[0]["name"] + ".execute", "robot.teleopPeriodic", "robot.disabledPeriodic"])
    over = rng.choice([p_us + (GRID_US if dyadic else 1000), 2 * p_us, p_us // 2 + p_us])
    add(slow, "*", ["stall", int(over)])
    add("robot.robotPeriodic", "*", ["stall", int(over if slow != "robot.robotPeriodic" else 0)]) if rng.random() < 0.5 and slow != "robot.robotPeriodic" else None
    return {"engine": ENGINE, "property": "C19", "seed": seed, "config": cfg, "ops": ops, "integration": True}



def generate(seed, prop, tier, index=0):
    if prop == "C19":
        return generate_c19(seed, tier, index)
    if prop in INTEGRATION:
        return generate_integration(seed, prop, tier, index)
    if prop == "C07":
        n = len(c07_enum_space())
        if tier == "thorough" and index < n:
            return c07_enum_plan(seed, index)
        if tier == "quick" and index < 1000:
            return c07_enum_plan(seed, (index * 7919 + seed) % n)
    rng = random.Random(seed)
    cfg = gen_config(rng, prop, tier)
    sites = all_sites(cfg)
    cap = cfg["cap_waits"]
    ops = []
    p = period_us(cfg)
    g = GRID_US if cfg["dyadic"] else 1000

    base_faults = rng.random() < 0.25      # in a quarter of the runs injected faults do not derive from Exception

    def add(site, visit, *acts):
        acts = [list(a) for a in acts]
        if base_faults:
            acts = [["raise", "base"] if a == ["raise"] else a for a in acts]
        ops.append({"site": site, "visit": visit, "acts": acts})

    # ---- driver-station schedule: packets at wait visits (mode sessions with arbitrary dwell)
    k = 0
    style = rng.choice(["long", "short", "mixed", "flicker"])
    while k < cap:
        k += {"long": rng.randint(3, 12), "short": rng.randint(1, 2), "mixed": rng.choice([1, 1, 2, 5, 9]), "flicker": 1}[style]
        if k < cap:
            add("wait", k, _rand_ds(rng))
    # first packet early so that most runs leave disabled quickly
    if rng.random() < 0.8:
        add("wait", 1, ["ds", 1, rng.choice(["teleop", "auto", "test", "teleop", "auto"]), None])
    # ---- packets that arrive inside callbacks (zero/one-iteration sessions, changes during init hooks)
    anysites = sites["init"] + sites["periodic"] + sites["lifecycle"] + sites["execute"] + sites["mode"]
    for _ in range(rng.choice([0, 0, 1, 2, 3])):
        s = rng.choice(anysites)
        add(s, rng.randint(1, 6 if (".on_" in s or "Init" in s) else 25), _rand_ds(rng))
    # ---- timing: stalls inside callbacks (loop over-run), late wake-ups
    for _ in range(rng.choice([0, 0, 1, 2, 4])):
        s = rng.choice(anysites)
        add(s, rng.randint(1, 20), ["stall", rng.choice([1, 2, 3, 5]) * (p // 2 if not cfg["dyadic"] else max(g, (p // 2 // g) * g))])
    for _ in range(rng.choice([0, 0, 1, 2])):
        add("wait", rng.randint(1, cap), ["late", rng.choice([1, 2, 7]) * g])
    # ---- shutdown somewhere
    if rng.random() < 0.5:
        s = rng.choice(anysites + ["wait", "wait"])
        add(s, rng.randint(1, max(2, cap)), ["end"])
    # ---- dashboard selects an autonomous mode
    if cfg["modes"] and rng.random() < 0.4:
        add(rng.choice(["wait", "robot.autonomousInit", "robot.disabledPeriodic"]), rng.randint(1, 6),
            ["autosel", rng.choice([m["name"] for m in cfg["modes"]] + ["None", "bogus"])])
    # ---- dashboard picks a mode in the chooser (takes effect at the next SmartDashboard update, i.e. robotPeriodic)
    if cfg["modes"] and rng.random() < 0.35:
        for _ in range(rng.choice([1, 1, 2])):
            add(rng.choice(["wait", "wait", "robot.disabledPeriodic", "robot.teleopPeriodic", "robot.autonomousInit"]), rng.randint(1, max(2, cap // 2)),
                ["select", rng.choice([m["name"] for m in cfg["modes"]] + ["None", "bogus"])])
    # ---- use_teleop_in_autonomous changed at run time, outside autonomous periods (it counts when a period starts)
    if rng.random() < (0.3 if prop == "C05" else 0.1):
        for _ in range(rng.choice([1, 2, 3])):
            add(rng.choice(["robot.disabledPeriodic", "robot.disabledPeriodic", "robot.disabledInit", "robot.teleopInit", "robot.testPeriodic"]),
                rng.randint(1, 8), ["utia", int(rng.random() < 0.5)])
    # ---- control_loop_wait_time assigned at run time: the next mode session runs at the new period
    if rng.random() < (0.25 if prop == "C05" else 0.05):
        for _ in range(rng.choice([1, 2])):
            newp = (rng.choice([1, 2, 3, 4]) / 64.0) if cfg["dyadic"] else rng.choice([0.02, 0.01, 0.005, 0.05, 0.025])
            add(rng.choice(["wait", "wait", "robot.disabledPeriodic", "robot.teleopPeriodic", "robot.robotPeriodic", "robot.teleopInit", "robot.autonomousInit"]
                           + sites["execute"]), rng.randint(1, max(2, cap - 1)), ["period", newp])
    # ---- FMS cable plugged / unplugged at a wake-up
    if rng.random() < 0.15:
        add("wait", rng.randint(1, cap), ["ds", 1, rng.choice(["teleop", "auto"]), int(rng.random() < 0.5)])

    # ---- property-specific faults
    if prop == "C06" and cfg["fms"] and rng.random() < 0.4:
        # a component hook that raises during a match must not cost the other components their hooks
        for _ in range(rng.choice([1, 1, 2])):
            if sites["lifecycle"]:
                add(rng.choice(sites["lifecycle"] + sites["init"] + sites["mode"]), rng.choice([1, 1, 2, 3, "*"]), ["raise"])
    if prop == "C07":
        fsites = sites["lifecycle"] + sites["execute"] + sites["init"] + sites["periodic"] + sites["fb"] + sites["mode"]
        nf = rng.choice([1, 1, 1, 2, 3])
        for _ in range(nf):
            s = rng.choice(fsites)
            v = rng.choice([1, 1, 2, rng.randint(1, 15), "*"])
            add(s, v, ["raise"])
        if len(cfg["modes"]) >= 2 and rng.random() < 0.15:
            # aimed: the selected autonomous mode's on_disable raises every time, the dashboard picks another mode
            # between two autonomous periods: the new mode must get its own complete life cycle
            m0, m1 = rng.sample(cfg["modes"], 2)
            add(f"mode.{m0['name']}.on_disable", "*", ["raise"])
            w = rng.randint(2, max(3, cap // 2))
            add("wait", 1, ["autosel", m0["name"]], ["ds", 1, "auto", 1])
            add("wait", w, ["ds", rng.choice([0, 1]), "teleop", 1])
            add("wait", w + 1, [rng.choice(["autosel", "select"]), m1["name"]] if True else [])
            if ops[-1]["acts"][0][0] == "select":
                add("wait", w + 1, ["autosel", "None"])
            add("wait", w + rng.choice([2, 3]), ["ds", 1, "auto", 1])
        if rng.random() < 0.15:
            # aimed: a callback that raises every time, an overrun (so that the loop catches up with iterations less than a
            # period apart) and the FMS cable flickering at consecutive wake-ups - the decision swallow/crash must follow the
            # FMS state at the very moment of each exception
            s = rng.choice(sites["execute"] + sites["periodic"])
            add(s, "*", ["raise"])
            w = rng.randint(2, max(3, cap - 3))
            add(rng.choice(sites["periodic"] + sites["execute"]), w, ["stall", rng.choice([2, 3, 5]) * p])
            fms_now = 1
            for j in range(rng.choice([2, 3, 5])):
                fms_now = 1 - fms_now if rng.random() < 0.7 else fms_now
                add("wait", w + j, ["ds", 1, rng.choice(["teleop", "auto"]), fms_now])
    if prop == "C10":
        targets = [(c["name"], r["attr"], r["default"]) for c in cfg["components"] for r in c["resets"]]
        plain = [(c["name"], a["attr"], a["default"]) for c in cfg["components"] for a in c["plain_attrs"]]
        asites = ["robot.teleopPeriodic"] + sites["execute"] + [s for s in sites["mode"] if s.endswith("on_iteration")] + \
                 ["robot.disabledPeriodic", "robot.testPeriodic", "robot.robotPeriodic"] + sites["lifecycle"]
        for _ in range(rng.choice([1, 2, 4, 6])):
            if targets:
                c, a, d = rng.choice(targets)
                add(rng.choice(asites[:len(sites["execute"]) + 3] if rng.random() < 0.8 else asites), rng.randint(1, 12),
                    ["assign", c, a, rng.choice([1, True, "go", 2.5, -1, [1, 2]])])
            if plain and rng.random() < 0.4:
                c, a, d = rng.choice(plain)
                add(rng.choice(asites), rng.randint(1, 12), ["assign", c, a, rng.choice([5, "set", True])])
        if cfg["fms"] or rng.random() < 0.3:
            itsites = [s for s in sites["mode"] if s.endswith("on_iteration")]
            for _ in range(rng.choice([0, 1, 2])):
                s = rng.choice(sites["execute"] + sites["periodic"] + sites["fb"] + ["robot.robotPeriodic"] + itsites + itsites)
                v = rng.choice([1, 2, rng.randint(1, 10), "*"])
                if targets and rng.random() < 0.5 and ".fb." not in s:
                    # the callback assigns a marked attribute and then raises
                    c, a, d = rng.choice(targets)
                    add(s, v, ["assign", c, a, rng.choice([1, True, "go", 2.5])], ["raise"])
                else:
                    add(s, v, ["raise"])
    if prop == "C11":
        allfb = [("robot", fb) for fb in cfg["robot_feedbacks"]] + [(c["name"], fb) for c in cfg["components"] for fb in c["feedbacks"]]
        for _ in range(rng.choice([0, 0, 1, 2, 3])):
            if allfb:
                owner, fb = rng.choice(allfb)
                if fb["hint"] in ("rot", "trs", "cs"):
                    continue
                key = ("/robot/" if owner == "robot" else f"/components/{owner}/") + fb_key(fb)
                pool = HINTS[fb["hint"]][2] if fb["hint"] is not None else [v for t, vs in UNTYPED_POOLS if t == fb["nt_type"] for v in vs]
                other = [v for v in pool if v != fb["values"][0]] or pool
                v = rng.choice(other)
                if fb["hint"] is None and type(v) is int:
                    v = float(v)
                add("wait", rng.randint(1, cap), ["clobber", key, v])
        if sites["fb"] and (cfg["fms"] or rng.random() < 0.2):
            for _ in range(rng.choice([0, 1, 2])):
                add(rng.choice(sites["fb"]), rng.choice([1, 2, rng.randint(1, 10), "*"]), ["raise"])
        if cfg["fms"] and rng.random() < 0.3:
            # other callbacks of the iteration raise (swallowed): every getter is still called exactly once
            other = sites["execute"] + sites["periodic"] + [x for x in sites["mode"] if x.endswith("on_iteration")]
            for _ in range(rng.choice([1, 2])):
                add(rng.choice(other), rng.choice([1, 2, rng.randint(1, 10), "*"]), ["raise"])
    return {"engine": ENGINE, "property": prop, "seed": seed, "config": cfg, "ops": ops}


# =============================================================== world builder

def _lit(v):
    return repr(v)


def _machine_states_source(prefix, machine, flavour):
    """State functions of an embedded machine; flavour: 'sm' (magicbot decorators) or 'sa' (StatefulAutonomous decorators)."""
    L = []
    for st in machine["states"]:
        first = st["name"] == machine["first"]
        if st["kind"] == "timed":
            if flavour == "sm":
                deco = f"@timed_state(duration={_flit(st['duration'])}, next_state={st.get('next')!r}, first={first}, must_finish={bool(st.get('must_finish'))})"
            else:
                deco = f"@sa_timed_state(duration={_flit(st['duration'])}, next_state={st.get('next')!r}, first={first})"
        elif st["kind"] == "default":
            deco = "@default_state"
        else:
            if flavour == "sm":
                deco = f"@state(first={first}, must_finish={bool(st.get('must_finish'))})"
            else:
                deco = f"@sa_state(first={first})" if first else "@sa_state"
        L += [f"    {deco}", f"    def {st['name']}(self, tm, state_tm, initial_call):",
              f"        SIM.cb('{prefix}.st.{st['name']}', [tm, state_tm, initial_call], self)"]
    return L


def build_sources(cfg):
    """Returns (robot_source, {module_name: source}) for the generated robot and its autonomous package."""
    L = ["import magicbot", "from magicbot import will_reset_to, feedback, tunable, state, timed_state, default_state", "from collections.abc import Sequence",
         "from wpimath.geometry import Rotation2d, Translation2d", "from wpimath.kinematics import ChassisSpeeds", "",
         "class Dep:", "    pass", ""]
    cls_of = {c["name"]: (c.get("clone_of") or c["name"]).upper() for c in cfg["components"]}
    for c in cfg["components"]:
        nm = c["name"]
        if c.get("clone_of"):
            continue
        if c.get("extends"):
            L.append(f"class {nm.upper()}({c['extends'].upper()}):")
            own = [r for r in c["resets"] if r.get("own")]
            for r in own:
                L.append(f"    {r['attr']} = will_reset_to({_lit(r['default'])})")
            if not own:
                L.append("    pass")
            L.append("")
            continue
        if c.get("machine"):
            L.append(f"class {nm.upper()}(magicbot.StateMachine):")
            if c["inject_dep"]:
                L.append("    dep0: Dep")
            L += ["    def __init__(self):", f"        SIM.ctor(self, '{nm.upper()}')"]
            for h in ("setup", "on_enable"):
                if h in c["hooks"]:
                    L += [f"    def {h}(self):", f"        SIM.cb('{nm}.{h}')"] + (["        super().on_enable()"] if h == "on_enable" else [])
            L += ["    def on_disable(self):", f"        SIM.cb('{nm}.on_disable')", "        super().on_disable()",
                  f"        SIM.note('{nm}.post', [self.is_executing, self.current_state])",
                  "    def execute(self):",
                  "        if getattr(self, '_verif_nested', False):",
                  "            return super().execute()      # re-entered through next_state_now(): not a framework call",
                  "        self._verif_nested = True",
                  "        try:",
                  f"            SIM.cb('{nm}.execute')", "            super().execute()",
                  "        finally:",
                  "            self._verif_nested = False",
                  f"        SIM.note('{nm}.post', [self.is_executing, self.current_state])",
                  "    def done(self):", f"        SIM.note('{nm}.done')", "        super().done()"]
            L += _machine_states_source(nm, c["machine"], "sm")
            L.append("")
            continue
        dia_r = [r for r in c["resets"] if r.get("diamond")]
        dia_p = [a for a in c["plain_attrs"] if a.get("diamond")]
        inh = [r for r in c["resets"] if r["inherited"]]
        own = [r for r in c["resets"] if (not r["inherited"] or r.get("override") == "marker") and not r.get("diamond")]
        shadow = [a for a in c["plain_attrs"] if a.get("shadows_marker")]
        dia_bases = ""
        if dia_r or dia_p:
            L.append(f"class {nm.upper()}Root:")
            for r in dia_r:
                L.append(f"    {r['attr']} = will_reset_to({_lit(r['base_default'])})")
            for a in dia_p:
                L.append(f"    {a['attr']} = will_reset_to({_lit(a['base_default'])})")
            L += ["", f"class {nm.upper()}Left({nm.upper()}Root):", "    pass", "", f"class {nm.upper()}Right({nm.upper()}Root):"]
            for r in dia_r:
                L.append(f"    {r['attr']} = will_reset_to({_lit(r['default'])})")
            for a in dia_p:
                L.append(f"    {a['attr']} = {_lit(a['default'])}")
            L.append("")
            swap = any(x.get("swap") for x in dia_r + dia_p)
            dia_bases = f"{nm.upper()}Left, {nm.upper()}Right" if not swap else f"{nm.upper()}Right, {nm.upper()}Left"
        if inh or shadow:
            L.append(f"class {nm.upper()}Base:")
            for r in inh:
                L.append(f"    {r['attr']} = will_reset_to({_lit(r.get('base_default') if r.get('override') == 'marker' else r['default'])})")
            for a in shadow:
                L.append(f"    {a['attr']} = will_reset_to({_lit(a['base_default'])})")
            L.append("")
            L.append(f"class {nm.upper()}({nm.upper()}Base{', ' + dia_bases if dia_bases else ''}):")
        else:
            L.append(f"class {nm.upper()}({dia_bases}):" if dia_bases else f"class {nm.upper()}:")
        if c["inject_dep"]:
            L.append("    dep0: Dep")
        if c["inject_comp"]:
            L.append(f"    {c['inject_comp']}: '{cls_of[c['inject_comp']]}'")
        for r in own:
            L.append(f"    {r['attr']} = will_reset_to({_lit(r['default'])})")
        for a in c["plain_attrs"]:
            if not a.get("diamond"):
                L.append(f"    {a['attr']} = {_lit(a['default'])}")
        L.append("    def __init__(self):")
        L.append("        SIM.ctor(self, type(self).__name__)")
        late = c.get("late_hooks") if "setup" in c["hooks"] else None
        for h in ("setup", "on_enable", "on_disable"):
            if h in c["hooks"]:
                if late and h != "setup":
                    L.append(f"    def _late_{h}(self):")
                    L.append(f"        SIM.cb(SIM.nm(self) + '.{h}')")
                    if late == "replace":
                        L.append(f"    def {h}(self):")
                        L.append(f"        SIM.cb(SIM.nm(self) + '.{h}_of_the_class_although_replaced')")
                    continue
                L.append(f"    def {h}(self):")
                L.append(f"        SIM.cb(SIM.nm(self) + '.{h}')")
                if late and h == "setup":
                    for h2 in ("on_enable", "on_disable"):
                        if h2 in c["hooks"]:
                            L.append(f"        self.{h2} = self._late_{h2}")
        L.append("    def execute(self):")
        L.append("        SIM.cb(SIM.nm(self) + '.execute')")
        for fb in c["feedbacks"]:
            L += _fb_source(None, fb)
        L.append("")
    robot_lines = []
    base_comps = [c for c in cfg["components"] if c["in_base_robot"]]
    leaf_comps = [c for c in cfg["components"] if not c["in_base_robot"]]
    if cfg["split_robot"]:
        L.append("class BaseRobot(magicbot.MagicRobot):")
        for c in base_comps:
            L.append(f"    {c['name']}: {cls_of[c['name']]}")
        L.append("    def createObjects(self):")
        L.append("        self.dep0 = Dep()")
        L.append("")
        L.append("class Robot(BaseRobot):")
    else:
        L.append("class Robot(magicbot.MagicRobot):")
    for c in leaf_comps:
        L.append(f"    {c['name']}: {cls_of[c['name']]}")
    if cfg.get("period_on_instance"):
        # the period is configured on the instance in createObjects(); the class attribute keeps another value
        L.append(f"    control_loop_wait_time = {(0.02 if cfg['period'] != 0.02 else 0.05)!r}")
    else:
        L.append(f"    control_loop_wait_time = {cfg['period']!r}")
    L.append(f"    use_teleop_in_autonomous = {bool(cfg['use_teleop_in_auto'])}")
    if cfg.get("error_report_interval") is not None:
        eri = cfg["error_report_interval"]
        L.append(f"    error_report_interval = {('float(' + repr(eri) + ')') if isinstance(eri, str) else repr(eri)}")
    if not cfg["split_robot"] or cfg.get("period_on_instance"):
        L.append("    def createObjects(self):")
        L.append("        self.dep0 = Dep()")
        if cfg.get("period_on_instance"):
            L.append(f"        self.control_loop_wait_time = {cfg['period']!r}")
    for h in ("disabledInit", "disabledPeriodic", "teleopInit", "teleopPeriodic", "autonomousInit", "testInit", "testPeriodic"):
        L.append(f"    def {h}(self):")
        L.append(f"        SIM.cb('robot.{h}')")
    L.append("    def robotPeriodic(self):")
    L.append("        SIM.cb('robot.robotPeriodic')")
    L.append("        super().robotPeriodic()")
    for fb in cfg["robot_feedbacks"]:
        L += _fb_source("robot", fb)
    L.append("")
    mods = {}
    for m in cfg["modes"]:
        if m.get("kind") in ("asm", "sa"):
            pre = f"mode.{m['name']}"
            S = ["import builtins", "SIM = builtins._verif_sim",
                 "from magicbot import AutonomousStateMachine, state, timed_state, default_state",
                 "from robotpy_ext.autonomous import StatefulAutonomous",
                 "from robotpy_ext.autonomous import state as sa_state, timed_state as sa_timed_state"]
            base = "AutonomousStateMachine" if m["kind"] == "asm" else "StatefulAutonomous"
            S += [f"class {m['cls']}({base}):", f"    MODE_NAME = {m['name']!r}"]
            if m["default"]:
                S.append("    DEFAULT = True")
            post = [f"        SIM.note('{pre}.post', [self.is_executing, self.current_state])"] if m["kind"] == "asm" else []
            S += ["    def on_enable(self):", f"        SIM.cb('{pre}.on_enable')", "        super().on_enable()",
                  "    def on_iteration(self, tm):", f"        SIM.cb('{pre}.on_iteration', tm)", "        super().on_iteration(tm)"] + post
            S += ["    def on_disable(self):", f"        SIM.cb('{pre}.on_disable')", "        super().on_disable()"] + post
            if m["kind"] == "asm":
                S += ["    def done(self):", f"        SIM.note('{pre}.done')", "        super().done()"]
            S += _machine_states_source(pre, m["machine"], "sm" if m["kind"] == "asm" else "sa")
            mods[m["module"]] = "\n".join(S) + "\n"
            continue
        S = ["import builtins", "SIM = builtins._verif_sim", f"class {m['cls']}:", f"    MODE_NAME = {m['name']!r}"]
        if m["default"]:
            S.append("    DEFAULT = True")
        if m.get("falsy"):
            S += ["    def __len__(self):", "        return 0"]
        for h, args in (("on_enable", ""), ("on_disable", "")):
            S.append(f"    def {h}(self):")
            S.append(f"        SIM.cb('mode.{m['name']}.{h}')")
        S.append("    def on_iteration(self, tm):")
        S.append(f"        SIM.cb('mode.{m['name']}.on_iteration', tm)")
        mods[m["module"]] = "\n".join(S) + "\n"
    return "\n".join(L) + "\n", mods


def _fb_source(owner, fb):
    out = []
    deco = "@feedback" if not fb.get("key") else f"@feedback(key={fb['key']!r})"
    hint = HINTS[fb["hint"]][0]
    if hint and fb.get("quoted_hint"):
        hint = repr(hint)          # a string annotation (as under `from __future__ import annotations`)
    ann = f" -> {hint}" if hint else ""
    out.append(f"    {deco}")
    out.append(f"    def {fb['name']}(self){ann}:")
    if owner is None:
        out.append(f"        site = SIM.nm(self) + '.fb.{fb['name']}'")
    else:
        out.append(f"        site = '{owner}.fb.{fb['name']}'")
    out.append("        n = SIM.cb(site)")
    out.append("        return SIM.fbval(site, n)")
    return out


def normalise(cfg):
    """Make a (possibly shrunk) configuration self-consistent, so that every plan is executable."""
    cfg = dict(cfg)
    comps = [dict(c) for c in cfg["components"]]
    names = {c["name"] for c in comps}
    byname = {c["name"]: c for c in comps}
    for c in comps:
        if c.get("clone_of") and (c["clone_of"] not in names or byname[c["clone_of"]].get("clone_of") or byname[c["clone_of"]].get("machine")):
            c["clone_of"] = None
        if c.get("clone_of"):
            o = byname[c["clone_of"]]
            for k in ("hooks", "resets", "plain_attrs", "feedbacks", "inject_dep", "inject_comp"):
                c[k] = o[k]
            c["late_hooks"] = o.get("late_hooks")
        if c.get("extends") and (c["extends"] not in names or byname[c["extends"]].get("clone_of") or byname[c["extends"]].get("extends")
                                 or byname[c["extends"]].get("machine")):
            c["extends"] = None
            c["resets"] = [dict(r, own=False) for r in c["resets"]]
        if c.get("extends"):
            o = byname[c["extends"]]
            for k in ("hooks", "plain_attrs", "feedbacks", "inject_dep", "inject_comp"):
                c[k] = o[k]
            c["late_hooks"] = o.get("late_hooks")
            own = [r for r in c["resets"] if r.get("own")]
            own_names = {r["attr"] for r in own}
            c["resets"] = [dict(r) for r in o["resets"] if r["attr"] not in own_names] + own
    for c in comps:
        if not cfg.get("split_robot"):
            c["in_base_robot"] = False
        if c.get("inject_comp") not in names or c.get("inject_comp") == c["name"]:
            c["inject_comp"] = None
    cfg["components"] = comps
    return cfg


class SimFault(Exception):
    def __init__(self, site, visit):
        super().__init__(f"injected fault at {site}#{visit}")
        self.site, self.visit = site, visit


class SimFaultBase(BaseException):
    """an exception that does not derive from Exception (like asyncio.CancelledError or SystemExit raised in user code)"""

    def __init__(self, site, visit):
        super().__init__(f"injected non-Exception fault at {site}#{visit}")
        self.site, self.visit = site, visit


class _Sim:
    def __init__(self, world, cfg, ops):
        self.world = world
        self.cfg = cfg
        self.ev = index_events(ops)
        self.visits = {}
        self.log = []
        self.robot = None
        self.faults = {}
        self.fbvals = {}
        for owner, fbs in [("robot", cfg["robot_feedbacks"])] + [(c["name"], c["feedbacks"]) for c in cfg["components"]]:
            for fb in fbs:
                self.fbvals[f"{owner}.fb.{fb['name']}"] = fb
        self.keys = sorted((c["name"], a["attr"]) for c in cfg["components"] for a in (c["resets"] + c["plain_attrs"]))
        self.names, self.ctor_count, self.objs = {}, {}, []
        self.muted, self.pre_count, self.pre_robot = False, {}, None
        # declaration order as the framework sees it: base-class robot annotations first
        from models.robot_model import declared_order
        self.order = declared_order(cfg)
        self.ncb, self.cb_limit = 0, 10 ** 9
        self.threaded = False
        self.at_wait = None
        self.resumed = None
        self.booked = None
        self._pending = None
        self.boxes = {}
        self.dur_pubs = {}
        self.struct_subs = {}
        self.cur_owner = None
        self.clobber_pubs = {}
        self.snap_on = False
        self.mode_sub = None
        self.autosel_pub = None
        self.fb_subs = {}
        self.cap = cfg["cap_waits"]
        self.real_wait = None
        self.aborted = None
        self.emit = None

    def fault(self, k):
        self.faults[k] = self.faults.get(k, 0) + 1

    def fbval(self, site, n):
        fb = self.fbvals[site]
        v = fb_value(fb, n)
        if fb["hint"] == "rot":
            from wpimath.geometry import Rotation2d
            return Rotation2d(v["rot"])
        if fb["hint"] == "trs":
            from wpimath.geometry import Translation2d
            v = [Translation2d(x["tr"][0], x["tr"][1]) for x in v]
        if fb["hint"] == "cs":
            from wpimath.kinematics import ChassisSpeeds
            if fb.get("inplace"):
                box = self.boxes.get(site)
                if box is None:
                    box = self.boxes[site] = ChassisSpeeds()
                box.vx, box.vy, box.omega = v["cs"]        # same object, new contents
                return box
            return ChassisSpeeds(*v["cs"])
        if fb.get("inplace"):
            box = self.boxes.setdefault(site, [])
            box[:] = v          # same list object every iteration, contents replaced in place
            return box
        return v

    def snapshot(self):
        if not self.snap_on:
            return None
        out = []
        r = self.robot
        for c, a in self.keys:
            comp = r.__dict__.get(c, None) if r is not None else None
            v = getattr(comp, a, "<missing>") if comp is not None else "<nocomp>"
            if not (v is None or isinstance(v, (bool, int, float, str, list))):
                v = f"<{type(v).__name__} object>"       # e.g. an unreplaced will_reset_to marker
            out.append(v)
        return out

    def _inj_ok(self):
        r = self.robot
        for c in self.cfg["components"]:
            comp = r.__dict__.get(c["name"])
            if comp is None:
                return False
            if c["inject_dep"] and comp.__dict__.get("dep0") is not r.__dict__.get("dep0"):
                return False
            if c["inject_comp"] and comp.__dict__.get(c["inject_comp"]) is not r.__dict__.get(c["inject_comp"]):
                return False
            if not hasattr(comp, "_tunables") or not hasattr(comp, "logger"):
                return False
        return True

    def apply(self, acts, at_wait=False):
        w = self.world
        DS = w.wpilib.simulation.DriverStationSim
        do_raise = False
        sm_acted = False      # one in-state action per state-function call: the first one listed counts
        for a in acts:
            k = a[0]
            if k in ("smnext", "smnow", "smdone"):
                if sm_acted:
                    continue
                sm_acted = True
            if k == "ds":
                DS.setEnabled(bool(a[1]))
                DS.setAutonomous(a[2] == "auto")
                DS.setTest(a[2] == "test")
                if a[3] is not None:
                    DS.setFmsAttached(bool(a[3]))
                    self.fault("fms_flip")
                DS.notifyNewData()
                self.fault("ds_packet_at_wakeup" if at_wait else "ds_packet_inside_callback")
            elif k == "stall" and not at_wait:
                w.advance(a[1])
                self.fault("slow_callback")
            elif k == "late" and at_wait:
                w.advance(a[1])
                self.fault("late_wakeup")
            elif k == "assign":
                comp = self.robot.__dict__.get(a[1]) if self.robot is not None else None
                if comp is not None and (a[1], a[2]) in self.keys and self.snap_on:
                    setattr(comp, a[2], a[3])
                    self.fault("assignment")
            elif k == "autosel":
                self.autosel_pub.set(a[1])
                self.fault("dashboard_auto_selector")
            elif k == "period":
                if self.robot is not None:
                    self.robot.control_loop_wait_time = a[1]
                    self.fault("control_loop_wait_time_changed_at_run_time")
            elif k == "utia":
                if self.robot is not None:
                    self.robot.use_teleop_in_autonomous = bool(a[1])
                    self.fault("use_teleop_in_autonomous_changed_at_run_time")
            elif k == "select":
                self.select_pub.set(a[1])
                self.fault("dashboard_chooser_selection")
            elif k == "clobber" and at_wait:
                # another NetworkTables client overwrites a feedback entry between two iterations
                sub = self.fb_subs.get(a[1])
                if sub is not None and sub.get().isValid():
                    pub = self.clobber_pubs.get(a[1])
                    if pub is None:
                        pub = self.clobber_pubs[a[1]] = self.mk_pub(a[1])
                    pub.set(a[2])
                    self.fault("client_overwrites_feedback_entry")
            elif k == "end":
                if self.robot is not None and hasattr(self.robot, "_automodes"):
                    self.robot.endCompetition()
                    self.fault("endCompetition")
            elif k == "engage" and not at_wait:
                comp = self.robot.__dict__.get(a[1]) if self.robot is not None else None
                if comp is not None and hasattr(comp, "engage"):
                    comp.engage()
            elif k in ("smnext", "smnow") and not at_wait:
                o = self.cur_owner
                if o is not None and hasattr(type(o), str(a[1])) and a[1] != "dflt":
                    if k == "smnext" or not hasattr(o, "next_state_now"):
                        o.next_state(a[1])
                    else:
                        o.next_state_now(a[1])
            elif k == "ntdur":
                pub = self.dur_pubs.get((a[1], a[2]))
                if pub is not None:
                    pub.set(a[3])
                    self.fault("dashboard_duration_write")
            elif k == "smdone" and not at_wait:
                if self.cur_owner is not None:
                    self.cur_owner.done()
            elif k == "raise" and not at_wait:
                do_raise = "base" if (len(a) > 1 and a[1] == "base") else True
        return do_raise

    def ctor(self, obj, clsname):
        """k-th construction of a class = k-th declared component of that class (creation follows declaration order)"""
        if self.muted:
            # an earlier robot of the same process builds its own components: they are not this robot's
            k = self.pre_count.get(clsname, 0)
            self.pre_count[clsname] = k + 1
            self.names[id(obj)] = f"earlier_robot.{clsname}#{k}"
            self.objs.append(obj)
            return 0
        members = [c["name"] for c in self.order if (c.get("clone_of") or c["name"]).upper() == clsname]
        k = self.ctor_count.get(clsname, 0)
        self.ctor_count[clsname] = k + 1
        name = members[k] if k < len(members) else f"{clsname}#{k}"
        self.names[id(obj)] = name
        self.objs.append(obj)
        return self.cb(name + ".ctor")

    def nm(self, obj):
        return self.names.get(id(obj), "<unknown component>")

    def note(self, site, extra=None):
        if self.aborted or self.muted:
            return
        try:
            n = self.visits.get(site, 0) + 1
            self.visits[site] = n
            self.log.append([site, n, self.world.now_us(), self.mode_sub.get(), self.snapshot(), extra])
        except Exception:
            self.harness_fail()

    def harness_fail(self):
        import traceback
        self.aborted = "harness"
        self.world.EMIT({"status": "error", "error": "harness exception inside a seam: " + traceback.format_exc()[-3000:]})

    def cb(self, site, extra=None, owner=None):
        if self.aborted or self.muted:
            return 0
        do_raise = False
        self.cur_owner = owner
        self.ncb += 1
        if self.ncb > self.cb_limit:
            # the robot program keeps invoking callbacks without ever reaching a loop wait: livelock
            self.aborted = "hang"
            self.emit()
        try:
            n = self.visits.get(site, 0) + 1
            self.visits[site] = n
            if not self.snap_on and not site.endswith(".ctor"):
                self.snap_on = True
            if site.endswith(".setup"):
                extra = self._inj_ok()
            self.log.append([site, n, self.world.now_us(), self.mode_sub.get(), self.snapshot(), extra])
            acts = list(self.ev.get((site, n), ())) + list(self.ev.get((site, "*"), ()))
            r = self.apply(acts) if acts else False
            if r:
                self.fault("callback_raises_non_Exception" if r == "base" else "callback_raises")
                do_raise = r
        except (SimFault, SimFaultBase):
            raise           # injected in a nested state function (next_state_now inside this callback): passes through
        except Exception:
            self.harness_fail()
        if do_raise == "base":
            raise SimFaultBase(site, n)
        if do_raise:
            raise SimFault(site, n)
        return n

    def wait_seam(self, handle):
        if self.threaded and not self.aborted:
            # conventional arrangement (self-test only): the robot thread really blocks in the HAL wait;
            # the scheduler thread does the bookkeeping and advances the clock, which wakes it up
            self.at_wait.set()
            self.booked.wait()          # the scheduler has recorded this visit (clock, alarm, NetworkTables)
            self.booked.clear()
            r = self.real_wait(handle)  # blocks for real until the scheduler thread has advanced the clock
            self.resumed.wait()
            self.resumed.clear()
            return r
        self.seam_work()
        return self.real_wait(handle)

    def seam_work(self, phase=0):
        """phase 0: everything (inverted loop); 1: record the visit; 2: advance the clock and deliver events"""
        w = self.world
        if self.aborted:
            return
        if phase == 2:
            n, alarm = self._pending
        try:
          if phase in (0, 1):
            n = self.visits.get("wait", 0) + 1
            self.visits["wait"] = n
            alarm = w.hs.getNextNotifierTimeout()
            fb = {}
            for key, sub in self.fb_subs.items():
                v = sub.get()
                if v.isValid():
                    val = v.value()
                    dec = self.struct_subs.get(key)
                    if dec is not None:
                        val = dec[0].get()
                        if dec[1] == "rot":
                            val = {"rot": round(val.radians(), 9)}
                        elif dec[1] == "cs":
                            val = {"cs": [val.vx, val.vy, val.omega]}
                        else:
                            val = [{"tr": [t.X(), t.Y()]} for t in val]
                    fb[key] = list(val) if isinstance(val, (list, tuple)) else val
            self.log.append(["wait", n, w.now_us(), alarm, fb, None])
            self._pending = (n, alarm)
          if phase in (0, 2):
            if w.now_us() < alarm:
                w.goto(alarm)
            else:
                self.fault("loop_overrun")
            acts = list(self.ev.get(("wait", n), ())) + list(self.ev.get(("wait", "*"), ()))
            if acts:
                self.apply(acts, at_wait=True)
            if n >= self.cap and self.robot is not None:
                self.robot.endCompetition()
            if n > self.cap + 3:
                self.aborted = "hang"
                self.emit()
        except Exception:
            self.harness_fail()


def _canon(log):
    """Feedback getters of one iteration form an unordered block: sort each maximal run of them."""
    out, i = [], 0
    while i < len(log):
        if ".fb." in log[i][0]:
            j = i
            while j < len(log) and ".fb." in log[j][0]:
                j += 1
            blk = sorted(log[i:j], key=lambda r: r[0])
            # the clock and observations are identical across a block (getters cannot stall)
            out.extend(blk)
            i = j
        else:
            out.append(log[i])
            i += 1
    return out


LIFECYCLE_SUFFIX = (".setup", ".on_enable", ".on_disable", "Init", ".ctor")


def _classify(site_e, site_a):
    for s in (site_e, site_a):
        if s and (".st." in s or s.endswith((".post", ".done"))):
            return "sm_behaviour"
    for s in (site_e, site_a):
        if s and (s.endswith(LIFECYCLE_SUFFIX)):
            return "lifecycle"
    for s in (site_e, site_a):
        if s and s.endswith(".execute"):
            return "execute_order"
    for s in (site_e, site_a):
        if s and ".fb." in s:
            return "feedback_calls"
    return "periodic_order"


def compare(cfg, mlog, moutcome, ilog, ioutcome, exact):
    """First difference between expected and observed logs -> (kind, message, index) or None."""
    A, B = _canon(mlog), _canon(ilog)
    n = min(len(A), len(B))
    for i in range(n):
        e, a = A[i], B[i]
        if e[0] != a[0] or e[1] != a[1]:
            return (_classify(e[0], a[0]), f"event {i}: expected {e[0]}#{e[1]}, implementation did {a[0]}#{a[1]}", i)
        if e[0] == "wait":
            if e[2] != a[2] or e[3] != a[3]:
                return ("timing", f"event {i} wait#{e[1]}: expected clock {e[2]} alarm {e[3]}, got clock {a[2]} alarm {a[3]}", i)
            if e[4] != a[4]:
                d = sorted(set(e[4]) | set(a[4]))
                k = next(k for k in d if e[4].get(k, "<absent>") != a[4].get(k, "<absent>") or type(e[4].get(k)) is not type(a[4].get(k)))
                return ("feedback_nt", f"event {i} wait#{e[1]}: NetworkTables {k} expected {e[4].get(k, '<absent>')!r}, got {a[4].get(k, '<absent>')!r}", i)
            continue
        if e[2] != a[2]:
            return ("timing", f"event {i} {e[0]}#{e[1]}: expected at {e[2]} us, happened at {a[2]} us", i)
        if e[3] != a[3]:
            return ("mode_nt", f"event {i} {e[0]}#{e[1]}: /robot/mode expected {e[3]!r}, got {a[3]!r}", i)
        if e[4] != a[4] or [type(x) for x in (e[4] or [])] != [type(x) for x in (a[4] or [])]:
            return ("reset_values", f"event {i} {e[0]}#{e[1]}: component attributes expected {e[4]!r}, got {a[4]!r}", i)
        if e[0].endswith(".setup") and e[5] != a[5]:
            return ("setup_obs", f"event {i} {e[0]}: not every component existed / was injected when setup() ran", i)
        if ".st." in e[0]:
            x, y = e[5], a[5]
            ok = isinstance(y, list) and len(y) == 3 and y[2] is x[2] and all(
                isinstance(v, (int, float)) and not isinstance(v, bool) and (v == w if exact else abs(v - w) <= 1e-9) for v, w in zip(y[:2], x[:2]))
            if not ok:
                return ("sm_behaviour", f"event {i} {e[0]}#{e[1]}: state function expected (tm, state_tm, initial_call) = {x}, received {y}", i)
        elif e[0].endswith(".post") and e[5] != a[5]:
            return ("sm_behaviour", f"event {i} {e[0]}#{e[1]}: expected (is_executing, current_state) = {e[5]}, got {a[5]}", i)
    if len(A) != len(B):
        e = A[n] if len(A) > n else None
        a = B[n] if len(B) > n else None
        es = f"{e[0]}#{e[1]}" if e else "nothing more (run over)"
        as_ = f"{a[0]}#{a[1]}" if a else "nothing more (run over)"
        kind = _classify(e[0] if e else None, a[0] if a else None)
        if e is None or a is None:
            # one side stopped: that is an outcome difference if the outcomes differ
            if moutcome != ioutcome:
                kind = "outcome"
        return (kind, f"event {n}: expected {es}, implementation did {as_} (expected outcome {moutcome}, got {ioutcome})", n)
    if moutcome != ioutcome:
        return ("outcome", f"expected the run to end with {moutcome}, got {ioutcome}", n)
    return None


def later_divergence(mlog, ilog, start, owned):
    """After a first divergence outside the property's projection the two logs are re-aligned on their call sites
    (longest common subsequence) and the remaining differences are classified: the property is quantified over all
    histories, so what follows a foreign deviation must still satisfy it.  Only the order / presence of calls is
    compared from there on (visit numbers, clock and values are out of step once a call is missing)."""
    import difflib
    A = [r[0] for r in _canon(mlog)][start:]
    B = [r[0] for r in _canon(ilog)][start:]
    sm = difflib.SequenceMatcher(a=A, b=B, autojunk=False)
    for tag, i1, i2, j1, j2 in sm.get_opcodes():
        if tag == "equal":
            continue
        exp, got = A[i1:i2], B[j1:j2]
        for se in exp or [None]:
            for sa in got or [None]:
                kind = _classify(se, sa)
                if kind in owned and kind not in ("exception", "hang"):
                    return (kind, f"(after an earlier divergence at event {start}) around event {start + i1}: expected {exp or 'nothing'}, "
                                  f"implementation did {got or 'nothing'}", start + i1)
    return None


# =============================================================== execution (child only)

def execute(plan, trace=False):
    from simkit import world
    import builtins
    import importlib
    wpilib, hal, hs, ntcore = world.wpilib, world.hal, world.hs, world.ntcore
    DS = wpilib.simulation.DriverStationSim

    cfg = normalise(plan["config"])
    prop = plan["property"]
    owned = OWNED[prop]
    ops = plan["ops"]

    # ---- C07, model-independent oracle: with the FMS attached for the whole lifetime the callback log of the faulty
    #      plan must equal the log of the same plan with the faults taken out.  The fault-free twin runs in a forked
    #      grandchild (this child is still single-threaded here) and hands its callback sequence back through a pipe.
    twin = None
    if (prop == "C07" and not plan.get("_fault_free_twin") and cfg["fms"]
            and any(a[0] == "raise" for ev in ops for a in ev["acts"])
            and not any(a[0] == "ds" and a[3] is not None for ev in ops for a in ev["acts"])
            # a raising robotPeriodic override never reaches the default implementation's SmartDashboard update, so a
            # chooser selection made by the dashboard would legitimately take effect later than in the fault-free twin
            and not (any(a[0] == "select" for ev in ops for a in ev["acts"])
                     and any(ev["site"] == "robot.robotPeriodic" and any(a[0] == "raise" for a in ev["acts"]) for ev in ops))
            and util.mix(plan.get("seed", 0), "twin") % 3 == 0):
        import json as _json
        rfd, wfd = os.pipe()
        pid = os.fork()
        if pid == 0:
            try:
                os.close(rfd)
                stripped = [dict(ev, acts=[a for a in ev["acts"] if a[0] != "raise"]) for ev in ops]
                res2 = execute(dict(plan, ops=stripped, _fault_free_twin=True))
                data = _json.dumps(res2.get("_sites", None)).encode()
                off = 0
                while off < len(data):
                    off += os.write(wfd, data[off:])
            finally:
                os._exit(0)
        os.close(wfd)
        twin = (pid, rfd)

    # ---- expected behaviour
    model = RobotModel(cfg, ops)
    try:
        mlog, moutcome = model.run()
    except Inconclusive:
        return {"status": "inconclusive", "violation": None, "probes": {}, "faults": {}, "sim_us": 0, "nontrivial": False, "states": [], "trans": []}

    # ---- the world
    world.goto(cfg["boot_us"])
    clk = world.SimClock()
    rundir = os.path.join(os.getcwd(), "run_twin" if plan.get("_fault_free_twin") else "run")
    if os.path.isdir(rundir):
        import shutil
        shutil.rmtree(rundir, ignore_errors=True)
    os.makedirs(os.path.join(rundir, "autonomous"), exist_ok=True)
    os.chdir(rundir)
    robot_src, mods = build_sources(cfg)
    if mods or True:
        with open(os.path.join(rundir, "autonomous", "__init__.py"), "w") as f:
            f.write("")
        for mn, src in mods.items():
            with open(os.path.join(rundir, "autonomous", mn + ".py"), "w") as f:
                f.write(src)
    sys.path.insert(0, rundir)
    sys.dont_write_bytecode = True
    importlib.invalidate_caches()

    sim = _Sim(world, cfg, ops)
    builtins._verif_sim = sim
    nt = ntcore.NetworkTableInstance.getDefault()
    sim.mode_sub = ntcore.StringTopic(nt.getTopic("/robot/mode")).subscribe("<unset>")
    sim.autosel_pub = ntcore.StringTopic(nt.getTopic("/SmartDashboard/Auto Selector")).publish()
    sim.select_pub = ntcore.StringTopic(nt.getTopic("/SmartDashboard/Autonomous Mode/selected")).publish()
    if cfg.get("auto_selector_initial") is not None:
        sim.autosel_pub.set(cfg["auto_selector_initial"])
    fb_types = {}
    for owner, fbs in [("robot", cfg["robot_feedbacks"])] + [(c["name"], c["feedbacks"]) for c in cfg["components"]]:
        for fb in fbs:
            prefix = "/robot/" if owner == "robot" else f"/components/{owner}/"
            key = prefix + fb_key(fb)
            sim.fb_subs[key] = nt.getTopic(key).genericSubscribe()
            fb_types[key] = fb["nt_type"]
            if fb["hint"] == "rot":
                from wpimath.geometry import Rotation2d
                sim.struct_subs[key] = (ntcore.StructTopic(nt.getTopic(key), Rotation2d).subscribe(Rotation2d(-9.0)), "rot")
            elif fb["hint"] == "trs":
                from wpimath.geometry import Translation2d
                sim.struct_subs[key] = (ntcore.StructArrayTopic(nt.getTopic(key), Translation2d).subscribe([]), "trs")
            elif fb["hint"] == "cs":
                from wpimath.kinematics import ChassisSpeeds
                sim.struct_subs[key] = (ntcore.StructTopic(nt.getTopic(key), ChassisSpeeds).subscribe(ChassisSpeeds()), "cs")
    for c in cfg["components"]:
        if c.get("machine"):
            for st in c["machine"]["states"]:
                if st["kind"] == "timed":
                    t = nt.getTopic(f"/components/{c['name']}/state/{st['name']}_duration")
                    sim.dur_pubs[(c["name"], st["name"])] = (ntcore.IntegerTopic(t) if isinstance(st["duration"], int) else ntcore.DoubleTopic(t)).publish()
    for m in cfg["modes"]:
        if m.get("kind") == "asm":
            for st in m["machine"]["states"]:
                if st["kind"] == "timed":
                    t = nt.getTopic(f"/autonomous/{m['name']}/state/{st['name']}_duration")
                    sim.dur_pubs[("mode." + m["name"], st["name"])] = (ntcore.IntegerTopic(t) if isinstance(st["duration"], int) else ntcore.DoubleTopic(t)).publish()
    DS.setDsAttached(True)
    DS.setEnabled(False)
    DS.setAutonomous(False)
    DS.setTest(False)
    DS.setFmsAttached(bool(cfg["fms"]))
    DS.notifyNewData()
    TOPIC = {"int": ntcore.IntegerTopic, "double": ntcore.DoubleTopic, "boolean": ntcore.BooleanTopic, "string": ntcore.StringTopic,
             "int[]": ntcore.IntegerArrayTopic, "double[]": ntcore.DoubleArrayTopic, "boolean[]": ntcore.BooleanArrayTopic, "string[]": ntcore.StringArrayTopic}
    sim.mk_pub = lambda key: TOPIC[fb_types[key]](nt.getTopic(key)).publish()

    import types
    mod = types.ModuleType("verif_generated_robot")
    sys.modules["verif_generated_robot"] = mod
    mod.SIM = sim
    exec(compile(robot_src, "<generated robot>", "exec"), mod.__dict__)
    Robot = mod.Robot

    result_box = {}

    probes_extra = {}

    def finish():
        ilog = sim.log
        ioutcome = result_box.get("outcome", ("hang",) if sim.aborted == "hang" else ("unknown",))
        if plan.get("_fault_free_twin"):
            return {"status": "ok", "_sites": [[r[0], r[1], r[2]] for r in _canon(ilog)] + [list(ioutcome)]}
        status, violation = "ok", None
        exact = bool(cfg["dyadic"]) or prop not in INTEGRATION
        try:
            if sim.aborted == "hang":
                raise Violation(prop, "model.hang", "the robot program kept looping after endCompetition(), or kept invoking callbacks without ever waiting for the next loop period", sig=f"{prop}:model.hang")
            if result_box.get("exc"):
                raise Violation(prop, "model.exception", "unexpected exception left startCompetition(): " + result_box["exc"], sig=f"{prop}:model.exception")
            diff = compare(cfg, mlog, moutcome, ilog, ioutcome, exact)
            foreign = None
            if diff is not None:
                kind, msg, at = diff
                if kind in owned:
                    raise Violation(prop, f"model.{kind}", msg, sig=f"{prop}:model.{kind}", at=at)
                foreign = kind
                if kind != "outcome" and prop not in INTEGRATION:
                    later = later_divergence(mlog, ilog, at, owned)
                    if later is not None:
                        raise Violation(prop, f"model.{later[0]}", later[1], sig=f"{prop}:model.{later[0]}", at=later[2])
            if True:
                # topic types of the feedback entries
                if prop == "C11" and foreign is None:
                    for key, want in sorted(fb_types.items()):
                        t = nt.getTopic(key)
                        if t.exists() and t.getTypeString() != want:
                            raise Violation(prop, "model.feedback_type", f"topic {key} has type {t.getTypeString()!r}, expected {want!r}", sig=f"{prop}:model.feedback_type")
                if prop not in INTEGRATION:
                    robot_invariants.check(prop, cfg, ops, ilog, ioutcome)
                if twin is not None:
                    import json as _json
                    chunks = []
                    while True:
                        b = os.read(twin[1], 1 << 16)
                        if not b:
                            break
                        chunks.append(b)
                    os.close(twin[1])
                    os.waitpid(twin[0], 0)
                    try:
                        clean = _json.loads(b"".join(chunks) or b"null")
                    except Exception:
                        clean = None
                    if clean is not None:
                        mine = [[r[0], r[1], r[2]] for r in _canon(ilog)] + [list(ioutcome)]
                        if mine != clean:
                            k = next((i for i, (x, y) in enumerate(zip(mine, clean)) if x != y), min(len(mine), len(clean)))
                            raise Violation(prop, "inv.fault_free_equivalence",
                                            f"FMS attached throughout: with the faults the lifetime differs from the fault-free lifetime of the same plan at event {k}: "
                                            f"{mine[k] if k < len(mine) else 'nothing more'} vs {clean[k] if k < len(clean) else 'nothing more'}",
                                            sig=f"{prop}:inv.fault_free_equivalence", at=k)
                        probes_extra["fault_free_twin_compared"] = 1
                if prop == "C19":
                    # MagicRobot owns one loop watchdog for its whole lifetime (robot.watchdog)
                    last = None
                    for t, _wid in sim.wd_warnings:
                        if last is not None and t - last < 1_000_000:
                            raise Violation(prop, "watchdog.rate_in_robot_loop", f"the robot's loop watchdog logged two overrun warnings {t - last} us apart (at {last} and {t} us)",
                                            sig=f"{prop}:watchdog.rate_in_robot_loop")
                        last = t
        except Violation as v:
            status, violation = "violation", v.to_json()
        probes, shape, states, trans = _coverage(cfg, model, mlog, moutcome, ops)
        probes.update(probes_extra)
        if plan.get("enum"):
            probes["enumerated_cases"] = 1
            probes["enumerated_cases_fault_reached" if model.faults_fired else "enumerated_cases_site_not_reached_in_that_mode"] = 1
            shape = util.h48(["enum", plan["enum"]["layout"], plan["enum"]["site"], plan["enum"]["schedule"], plan["enum"]["visit"], plan["enum"]["fms"]])
        if status == "ok" and diff is not None:
            probes["foreign_divergence_" + diff[0]] = 1
        nontrivial = _nontrivial(prop, cfg, probes, model)
        res = {"status": status, "violation": violation, "probes": probes, "faults": sim.faults,
               "shape": shape, "digest": util.digest([ilog, list(ioutcome)]), "sim_us": clk.covered(),
               "nontrivial": bool(nontrivial and status == "ok"), "states": states, "trans": trans}
        if trace:
            tr = ["generated robot:\n" + robot_src]
            for mn, src in mods.items():
                tr.append(f"autonomous/{mn}.py:\n" + src)
            tr.append(f"events: {ops}")
            A, B = _canon(mlog), _canon(ilog)
            for i in range(max(len(A), len(B))):
                e = A[i] if i < len(A) else None
                a = B[i] if i < len(B) else None
                mark = "  " if e == a else "!!"
                tr.append(f"{mark}[{i}] expected {e}   observed {a}")
            tr.append(f"expected outcome {moutcome}  observed outcome {ioutcome}")
            res["trace"] = tr
        return res

    def emit_and_exit():
        # used when the robot program cannot be made to return (it swallows everything with the FMS attached)
        res = finish()
        world.EMIT(res)

    import logging as _logging

    class _WdCapture(_logging.Handler):
        def emit(self, record):
            if record.levelno >= _logging.WARNING:
                wd = getattr(sim.robot, "watchdog", None) if sim.robot is not None else None
                sim.wd_warnings.append([world.now_us(), 0])

    sim.wd_warnings = []
    _wdh = _WdCapture(level=_logging.DEBUG)
    _logging.getLogger("simple_watchdog").addHandler(_wdh)
    sim.emit = emit_and_exit
    sim.cb_limit = 20 * len(mlog) + 2000
    sim.real_wait = hal.waitForNotifierAlarm
    hal.waitForNotifierAlarm = sim.wait_seam
    def lifetime():
        try:
            robot.startCompetition()
            result_box["outcome"] = ("returned",)
        except (SimFault, SimFaultBase) as f:
            result_box["outcome"] = ("raised", f.site, f.visit)
        except Exception as e:  # noqa
            import traceback
            result_box["outcome"] = ("error",)
            result_box["exc"] = f"{type(e).__name__}: {e} :: " + traceback.format_exc()[-600:]

    try:
        if cfg.get("pre_robot"):
            # two robots in one process (a practice robot class and the competition robot derived from it, or simply a
            # second instance): the first one is only initialised; nothing of it may leak into the second
            sim.muted = True
            base_names = {c["name"] for c in cfg["components"] if c["in_base_robot"]}
            base_alone = cfg["split_robot"] and all(c.get("inject_comp") in base_names or not c.get("inject_comp")
                                                    for c in cfg["components"] if c["in_base_robot"])
            pre = (mod.BaseRobot if base_alone else Robot)()
            pre.robotInit()
            sim.pre_robot = pre
            sim.muted = False
            sim.fault("earlier_robot_in_same_process")
        robot = Robot()
        sim.robot = robot
        if os.environ.get("VERIF_THREADED") == "1":
            # seam-soundness self-test: robot in its own thread, real blocking notifier wait
            import threading
            sim.threaded, sim.at_wait, sim.resumed, sim.booked = True, threading.Event(), threading.Event(), threading.Event()
            th = threading.Thread(target=lifetime, daemon=True)
            th.start()
            import time as _time
            t_end = _time.monotonic() + 40
            while th.is_alive() and _time.monotonic() < t_end:
                if sim.at_wait.wait(timeout=0.01):
                    sim.at_wait.clear()
                    sim.seam_work(1)
                    sim.booked.set()
                    sim.seam_work(2)
                    sim.resumed.set()
            if th.is_alive():
                return {"status": "error", "error": "threaded arrangement did not finish"}
        else:
            lifetime()
    finally:
        hal.waitForNotifierAlarm = sim.real_wait
    return finish()


# =============================================================== coverage accounting

def _coverage(cfg, model, mlog, moutcome, ops):
    probes = {}

    def probe(k, n=1):
        probes[k] = probes.get(k, 0) + n

    sess = model.sessions
    probe("mode_sessions", len(sess))
    prev = None
    for mode, it in sess:
        probe("session_" + mode)
        if it == 0:
            probe("zero_iteration_session")
        if it == 1:
            probe("one_iteration_session")
        if prev in ("teleop", "auto") and mode in ("teleop", "auto", "test") and prev != mode:
            probe("enabled_to_enabled_switch")
        if prev == "test" and mode in ("teleop", "auto"):
            probe("test_to_enabled_switch")
        prev = mode
    probe("iterations", model.visits.get("wait", 0))
    if model.sm_calls:
        probe("embedded_machine_state_calls", model.sm_calls)
        probe("embedded_machine_stops", model.sm_stops)
        probe("integration_runs")
    if moutcome[0] == "raised":
        probe("exception_left_robot_program")
    if model.faults_fired:
        probe("faults_fired_in_model", model.faults_fired)
        if moutcome[0] == "returned":
            probe("faults_swallowed_run")
    if any(a[0] == "end" for ev in ops for a in ev["acts"]) and model.visits.get("wait", 0) < cfg["cap_waits"]:
        probe("ended_by_endCompetition_event")
    modes_seen = {m for m, _ in sess}
    probe("distinct_modes_%d" % len(modes_seen))
    # abstract states: (mode, phase site category); transitions between consecutive callbacks
    states, trans = set(), set()
    prev_s = None
    seq = []
    for r in mlog:
        site = r[0]
        role = site.split(".", 1)[1] if site.startswith("c") and "." in site and site[1:2].isdigit() else site
        if site.startswith("mode."):
            role = "mode." + site.rsplit(".", 1)[1]
        if ".fb." in site:
            role = "fb"
        s = (r[3] if site != "wait" else "w", role)
        states.add(util.h48(s))
        if prev_s is not None:
            trans.add(util.h48((prev_s, s)))
        prev_s = s
        seq.append(role if site != "wait" else "wait")
    shape = util.h48([seq, list(moutcome[:1]), len(cfg["components"])])
    return probes, shape, sorted(states), sorted(trans)


def _nontrivial(prop, cfg, p, model):
    modes = {m for m, it in model.sessions if it > 0}
    if prop == "C19":
        return p.get("iterations", 0) >= 50
    if prop in INTEGRATION:
        return model.sm_calls >= 3 and (model.sm_stops >= 1 or prop == "C15")
    if prop == "C05":
        return len(cfg["components"]) >= 2 and len(modes) >= 2
    if prop == "C06":
        return p.get("enabled_to_enabled_switch", 0) + p.get("zero_iteration_session", 0) + p.get("one_iteration_session", 0) > 0 and len(cfg["components"]) >= 1
    if prop == "C07":
        return model.faults_fired > 0
    if prop == "C10":
        return p.get("iterations", 0) > 2 and any(c["resets"] for c in cfg["components"]) and bool(modes & {"teleop", "auto"})
    if prop == "C11":
        return len(modes) >= 2 and (bool(cfg["robot_feedbacks"]) or any(c["feedbacks"] for c in cfg["components"]))
    return True


# =============================================================== minimisation helpers

def simplify(plan):
    cfg, ops = plan["config"], plan["ops"]
    # drop single acts of multi-act events
    for i, ev in enumerate(ops):
        if len(ev["acts"]) > 1:
            for j in range(len(ev["acts"])):
                ne = dict(ev, acts=ev["acts"][:j] + ev["acts"][j + 1:])
                yield dict(plan, ops=ops[:i] + [ne] + ops[i + 1:])
        if ev["visit"] == "*":
            yield dict(plan, ops=ops[:i] + [dict(ev, visit=1)] + ops[i + 1:])
        elif isinstance(ev["visit"], int) and ev["visit"] > 1:
            yield dict(plan, ops=ops[:i] + [dict(ev, visit=1)] + ops[i + 1:])
            yield dict(plan, ops=ops[:i] + [dict(ev, visit=ev["visit"] - 1)] + ops[i + 1:])
    # fewer iterations
    if cfg["cap_waits"] > 1:
        for c in (1, 2, cfg["cap_waits"] // 2, cfg["cap_waits"] - 1):
            if 1 <= c < cfg["cap_waits"]:
                yield dict(plan, config=dict(cfg, cap_waits=c))
    used = " ".join(ev["site"] + " " + util.cjson(ev["acts"]) for ev in ops)
    # drop components / feedbacks / markers / modes that no event refers to
    for i, c in enumerate(cfg["components"]):
        if c["name"] + "." not in used and f'"{c["name"]}"' not in used and not any(o["inject_comp"] == c["name"] for o in cfg["components"]):
            cs = cfg["components"][:i] + cfg["components"][i + 1:]
            yield dict(plan, config=dict(cfg, components=cs, split_robot=False if not any(x["in_base_robot"] for x in cs) or all(x["in_base_robot"] for x in cs) else cfg["split_robot"]))
        if c["feedbacks"]:
            for j in range(len(c["feedbacks"])):
                c2 = dict(c, feedbacks=c["feedbacks"][:j] + c["feedbacks"][j + 1:])
                yield dict(plan, config=dict(cfg, components=cfg["components"][:i] + [c2] + cfg["components"][i + 1:]))
        if c["resets"]:
            for j in range(len(c["resets"])):
                c2 = dict(c, resets=c["resets"][:j] + c["resets"][j + 1:])
                yield dict(plan, config=dict(cfg, components=cfg["components"][:i] + [c2] + cfg["components"][i + 1:]))
        if c["hooks"]:
            for j in range(len(c["hooks"])):
                c2 = dict(c, hooks=c["hooks"][:j] + c["hooks"][j + 1:])
                yield dict(plan, config=dict(cfg, components=cfg["components"][:i] + [c2] + cfg["components"][i + 1:]))
        if c["inject_dep"] or c["inject_comp"] or c["plain_attrs"]:
            c2 = dict(c, inject_dep=False, inject_comp=None, plain_attrs=[])
            yield dict(plan, config=dict(cfg, components=cfg["components"][:i] + [c2] + cfg["components"][i + 1:]))
    if cfg["robot_feedbacks"]:
        yield dict(plan, config=dict(cfg, robot_feedbacks=[]))
    if cfg["split_robot"]:
        yield dict(plan, config=dict(cfg, split_robot=False, components=[dict(c, in_base_robot=False) for c in cfg["components"]]))
    for i, m in enumerate(cfg["modes"]):
        if "mode." + m["name"] + "." not in used:
            yield dict(plan, config=dict(cfg, modes=cfg["modes"][:i] + cfg["modes"][i + 1:]))
    if cfg["use_teleop_in_auto"]:
        yield dict(plan, config=dict(cfg, use_teleop_in_auto=False))
    if cfg["boot_us"]:
        yield dict(plan, config=dict(cfg, boot_us=0))
    if cfg.get("auto_selector_initial") is not None:
        yield dict(plan, config=dict(cfg, auto_selector_initial=None))
