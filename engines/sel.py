"""Engine SEL: robotpy_ext.autonomous.AutonomousModeSelector (property C14).

A real package directory is written per run (modules, classes with MODE_NAME /
DISABLED / DEFAULT flags, helper classes, duplicates, several defaults, modules
that fail to import, constructors that raise, missing package, implicit namespace
package); the directory-listing order is permuted through the module's `glob`
attribute; FMS attached or not.  Then the TimedRobot API (start/periodic/disable)
and run() periods under the inverted notifier loop are driven with dashboard
selections arriving in between.
"""
import os
import random
import sys

from simkit import util
from simkit.util import GRID_US, Violation

ENGINE = "sel"
NEEDS_RUNDIR = True
TOL = 1e-9


# =============================================================== generation

def gen_config(rng):
    pkg = rng.choice(["autonomous", "autonomous", "automodes", "pkg.auto"])
    missing = rng.random() < 0.06
    nmod = rng.choice([0, 1, 1, 2, 2, 3, 4])
    names_pool = ["Alpha", "Two Ball", "Drive_Fwd", "zz top", "B", "Center"]
    mods = []
    clsno = 0
    p_fault = rng.choice([0.0, 0.0, 0.1, 0.3])
    for i in range(nmod):
        m = {"name": f"mod_{i}", "import_fault": None, "classes": []}
        if rng.random() < p_fault * 0.5:
            m["import_fault"] = rng.choice(["ImportError", "SyntaxError", "ZeroDivisionError", "ModuleNotFoundError"])
        for j in range(rng.choice([0, 1, 1, 2, 3])):
            clsno += 1
            has_name = rng.random() < 0.8
            c = {"cls": f"Cls{clsno}", "mode_name": None, "disabled": False, "default": False, "ctor_fault": False, "helper_base": False,
                 "falsy": rng.random() < 0.15,      # a mode object that evaluates false (e.g. an empty step queue with __len__)
                 # the class is defined in a helper module outside the package and merely imported by the package module
                 # (a shared library of routines, a class factory): it is found in the module all the same
                 "imported": rng.random() < 0.12}
            if has_name:
                c["mode_name"] = rng.choice(names_pool) if rng.random() < (0.25 if p_fault else 0.0) else f"{rng.choice(names_pool)} {clsno}"
                c["disabled"] = rng.random() < 0.15
                c["default"] = rng.random() < (0.3 if p_fault else 0.12)
                c["ctor_fault"] = rng.random() < p_fault * 0.4
            m["classes"].append(c)
        mods.append(m)
    cfg = {"pkg": pkg, "missing": missing, "namespace_pkg": (not missing) and rng.random() < 0.15, "modules": mods,
           "fms": rng.random() < 0.5, "glob_perm": rng.randrange(1 << 30), "ctor_args": rng.choice([0, 0, 1]),
           "dyadic": True, "boot_us": rng.choice([0, 64, 640]) * GRID_US}
    # the directory that holds a namespace package is on sys.path twice (script directory + PYTHONPATH): the
    # package's __path__ lists the same directory twice, its modules still exist once
    cfg["path_twice"] = cfg["namespace_pkg"] and rng.random() < 0.5
    # stray hidden files next to the modules (macOS AppleDouble companions `._name.py`, editor lock files): not modules
    cfg["dotfiles"] = rng.random() < 0.1
    # at most one default unless faults are wanted
    if not p_fault:
        seen = False
        for m in mods:
            for c in m["classes"]:
                if c["default"] and not c["disabled"] and c["mode_name"]:
                    if seen:
                        c["default"] = False
                    seen = True
    return cfg


def discovery(cfg):
    """What the property says must come out of start-up."""
    d = {"instantiate": [], "healthy": [], "faults": [], "names": {}, "defaults": [], "default_cids": []}
    if cfg["missing"]:
        return d
    for m in cfg["modules"]:
        if m["import_fault"]:
            d["faults"].append(("import", m["name"]))
            continue
        for c in m["classes"]:
            if c["mode_name"] is None or c["disabled"]:
                continue
            d["instantiate"].append(c["cls"])
            if c["ctor_fault"]:
                d["faults"].append(("ctor", c["cls"]))
                continue
            d["healthy"].append(c["cls"])
            d["names"].setdefault(c["mode_name"], []).append(c["cls"])
            if c["default"]:
                d["defaults"].append(c["mode_name"])
                d["default_cids"].append(c["cls"])
    for n, cl in d["names"].items():
        if len(cl) > 1:
            d["faults"].append(("duplicate", n))
    if len(d["defaults"]) > 1:
        d["faults"].append(("several_defaults", tuple(sorted(d["defaults"]))))
    return d


def generate(seed, prop, tier, index=0):
    rng = random.Random(seed)
    cfg = gen_config(rng)
    d = discovery(cfg)
    names = sorted(d["names"])
    uniq = [n for n in names if len(d["names"][n]) == 1]
    ops = []
    api = rng.choice(["timed", "timed", "run", "mixed"])

    def dash():
        r = rng.random()
        if r < 0.35:
            ops.append(["select", rng.choice(uniq + ["None", "bogus"]) if uniq else rng.choice(["None", "bogus"])])
            if rng.random() < 0.8:
                ops.append(["tick"])
        elif r < 0.5:
            ops.append(["autosel", rng.choice(uniq + ["bogus", "None"]) if uniq else "bogus"])
        elif r < 0.6:
            ops.append(["tick"])

    for _ in range(rng.choice([1, 2, 3, 4])):
        dash()
        style = api if api != "mixed" else rng.choice(["timed", "run"])
        if style == "timed":
            if rng.random() < 0.15:
                ops.append(["disable"])          # stray
            ops.append(["start"])
            for _ in range(rng.choice([0, 1, 3, 8, 20])):
                ops.append(["adv", rng.choice([1, 1, 2, 0, 5]) * GRID_US])
                ops.append(["periodic"])
                if rng.random() < 0.1:
                    dash()                        # selection changes mid-period must not switch modes
            if rng.random() < 0.8:
                ops.append(["disable"])
                for _ in range(rng.choice([0, 0, 1, 2])):
                    ops.append(["adv", GRID_US])
                    ops.append([rng.choice(["periodic", "disable"])])   # stray calls while inactive
            elif rng.random() < 0.5:
                ops.append(["disable"])
            else:
                # the period ends without disable(); the selection may change before the next start()
                dash()
                ops.append(["start"])
                for _ in range(rng.choice([1, 2, 4])):
                    ops.append(["adv", GRID_US])
                    ops.append(["periodic"])
                ops.append(["disable"])
        else:
            n = rng.choice([0, 1, 2, 5, 12])
            # sometimes robot code calls disable() itself while run() is still looping (from the k-th on_iteration)
            dis_at = rng.randint(1, n) if n >= 2 and rng.random() < 0.2 else 0
            ops.append(["run", n, rng.choice(["ds", "ds", "ds_teleop", "exit"]), rng.choice([1, 2]) / 64.0,
                        rng.choice([0, 0, 1, 3]) * GRID_US, dis_at])
            if ops[-1][2] == "exit":
                break
    return {"engine": ENGINE, "property": prop, "seed": seed, "config": cfg, "ops": ops}


# =============================================================== world builder

def write_package(cfg, root):
    parts = cfg["pkg"].split(".")
    if cfg["missing"]:
        # parent packages exist, the leaf does not
        d = root
        for p in parts[:-1]:
            d = os.path.join(d, p)
            os.makedirs(d, exist_ok=True)
            open(os.path.join(d, "__init__.py"), "w").close()
        return
    d = root
    for i, p in enumerate(parts):
        d = os.path.join(d, p)
        os.makedirs(d, exist_ok=True)
        leaf = i == len(parts) - 1
        if not (leaf and cfg["namespace_pkg"]):
            open(os.path.join(d, "__init__.py"), "w").close()
    for m in cfg["modules"]:
        L = ["import builtins", "SIM = builtins._verif_sim", ""]
        L += ["class HelperBase:", "    def on_enable(self):", "        SIM.cb(self, 'on_enable', None)",
              "    def on_disable(self):", "        SIM.cb(self, 'on_disable', None)",
              "    def on_iteration(self, tm):", "        SIM.cb(self, 'on_iteration', tm)", ""]
        pre = list(L)
        shared = []
        for c in m["classes"]:
            T = shared if c.get("imported") else L
            T.append(f"class {c['cls']}(HelperBase):")
            T.append(f"    CID = {c['cls']!r}")
            if c["mode_name"] is not None:
                T.append(f"    MODE_NAME = {c['mode_name']!r}")
            if c["disabled"]:
                T.append("    DISABLED = True")
            if c["default"]:
                T.append("    DEFAULT = True")
            if c.get("falsy"):
                T.append("    def __len__(self):")
                T.append("        return 0")
            T.append("    def __init__(self, *args, **kwargs):")
            T.append(f"        SIM.ctor({c['cls']!r}, args, kwargs)")
            if c["ctor_fault"]:
                T.append("        raise RuntimeError('constructor fault')")
            T.append("")
        if shared:
            hm = "verif_shared_" + m["name"]
            with open(os.path.join(root, hm + ".py"), "w") as f:
                f.write("\n".join(pre + shared) + "\n")
            L.insert(len(pre), f"from {hm} import " + ", ".join(c["cls"] for c in m["classes"] if c.get("imported")))
        if m["import_fault"] == "SyntaxError":
            L.append("def broken(:")
        elif m["import_fault"] == "ImportError":
            L.append("from . import does_not_exist_anywhere")
        elif m["import_fault"] == "ModuleNotFoundError":
            L.append("import verif_no_such_module_xyz")
        elif m["import_fault"] == "ZeroDivisionError":
            L.append("X = 1 / 0")
        with open(os.path.join(d, m["name"] + ".py"), "w") as f:
            f.write("\n".join(L) + "\n")
        if cfg.get("dotfiles"):
            with open(os.path.join(d, "._" + m["name"] + ".py"), "wb") as f:
                f.write(b"\x00\x05\x16\x07\x00\x02\x00\x00Mac OS X        ")


class _Sim:
    def __init__(self, world):
        self.world = world
        self.ctors = {}
        self.log = []
        self.ctor_args = []
        self.disable_at, self.iter_count, self.selector = 0, 0, None

    def ctor(self, cid, args, kwargs):
        self.ctors[cid] = self.ctors.get(cid, 0) + 1
        self.ctor_args.append((len(args), sorted(kwargs)))

    def cb(self, inst, hook, arg):
        self.log.append([getattr(inst, "CID", "?"), getattr(inst, "MODE_NAME", None), hook, arg, self.world.now_us()])
        if hook == "on_iteration" and self.disable_at:
            self.iter_count += 1
            if self.iter_count == self.disable_at:
                self.disable_at = 0
                self.selector.disable()

    def take(self):
        l, self.log = self.log, []
        return l


def execute(plan, trace=False):
    from simkit import world
    import builtins
    import importlib
    import shutil
    wpilib, hal, hs, ntcore = world.wpilib, world.hal, world.hs, world.ntcore
    import robotpy_ext.autonomous.selector as selmod
    DS = wpilib.simulation.DriverStationSim
    cfg, prop = plan["config"], plan["property"]
    world.goto(cfg["boot_us"])
    clk = world.SimClock()
    rundir = os.path.join(os.getcwd(), "run")
    shutil.rmtree(rundir, ignore_errors=True)
    os.makedirs(rundir)
    os.chdir(rundir)
    write_package(cfg, rundir)
    sys.path.insert(0, rundir)
    if cfg.get("path_twice"):
        sys.path.insert(0, rundir)
    sys.dont_write_bytecode = True
    importlib.invalidate_caches()
    sim = _Sim(world)
    builtins._verif_sim = sim
    probes, faults, shape = {}, {}, []
    states, trans = set(), set()
    tr = [] if trace else None
    full_log = []

    def probe(k, n=1):
        probes[k] = probes.get(k, 0) + n

    def fault(k, n=1):
        faults[k] = faults.get(k, 0) + n

    def fail(rule, msg, at=None):
        raise Violation(prop, rule, msg, sig=f"{prop}:{rule}", at=at)

    DS.setDsAttached(True)
    DS.setEnabled(False)
    DS.setAutonomous(False)
    DS.setTest(False)
    DS.setFmsAttached(bool(cfg["fms"]))
    DS.notifyNewData()
    nt = ntcore.NetworkTableInstance.getDefault()
    real_glob = getattr(selmod, "glob", None)

    def perm_glob(pattern):
        r = sorted(real_glob(pattern))
        random.Random(cfg["glob_perm"]).shuffle(r)
        return r

    if real_glob is not None:
        # the seam is the module's own `glob` name; a selector that lists the directory some other way simply keeps
        # the file system's order
        selmod.glob = perm_glob
        fault("directory_listing_permuted")
    if cfg.get("path_twice") and not cfg["missing"]:
        fault("namespace_package_directory_twice_on_sys_path")
    if any(c.get("imported") for m in cfg["modules"] for c in m["classes"]) and not cfg["missing"]:
        fault("mode_class_imported_from_outside_the_package")
    d = discovery(cfg)
    status, violation = "ok", None
    real_wait = hal.waitForNotifierAlarm
    try:
        # ------------------------------------------------ start-up / discovery
        args = ({"drive": 1},) if cfg["ctor_args"] else ()
        sel = None
        startup_exc = None
        try:
            sel = selmod.AutonomousModeSelector(cfg["pkg"], *args)
        except Exception as e:
            startup_exc = f"{type(e).__name__}: {e}"
        for f in d["faults"]:
            fault("discovery_" + f[0])
        if cfg["missing"]:
            fault("package_missing")
        must_raise = bool(d["faults"]) and not cfg["fms"]
        if tr is not None:
            tr.append(f"package {cfg['pkg']} modules={cfg['modules']} fms={cfg['fms']}")
            tr.append(f"expected discovery {d}; start-up exception: {startup_exc}")
        if must_raise:
            probe("startup_raised_as_required")
            if startup_exc is None:
                fail("startup_should_raise", f"discovery faults {d['faults']} with no FMS attached, but the selector started up")
        else:
            if startup_exc is not None:
                fail("startup_raised", f"start-up raised {startup_exc} (faults {d['faults']}, FMS attached={cfg['fms']})")
            if d["faults"]:
                probe("startup_tolerated_faults_under_fms")
            # instantiated once each, exactly the right classes
            for cid in d["instantiate"]:
                if sim.ctors.get(cid, 0) != 1:
                    fail("instantiated_once", f"class {cid} was instantiated {sim.ctors.get(cid, 0)} times, expected once")
            extra = sorted(set(sim.ctors) - set(d["instantiate"]))
            if extra:
                fail("instantiated_extra", f"classes {extra} must not be instantiated (no MODE_NAME / DISABLED)")
            if cfg["ctor_args"] and any(a != (1, []) for a in sim.ctor_args):
                fail("ctor_args", f"constructor arguments not passed through: {sim.ctor_args}")
            # offered modes
            offered = dict(sel.modes)
            cids = sorted(getattr(v, "CID", "?") for v in offered.values())
            if cids != sorted(d["healthy"]):
                fail("modes_offered", f"selector offers instances of {cids}, healthy modes are {sorted(d['healthy'])}")
            for n, cl in d["names"].items():
                if n not in offered or getattr(offered[n], "CID", None) not in cl:
                    fail("offered_by_mode_name", f"mode {n!r} is not offered under its MODE_NAME (keys {sorted(offered)})")
            wpilib.SmartDashboard.updateValues()
            tbl = nt.getTable("/SmartDashboard/Autonomous Mode")
            opts = tbl.getEntry("options").getStringArray(None)
            dflt = tbl.getEntry("default").getString(None)
            if opts is None or sorted(opts) != sorted(list(offered) + ["None"]):
                fail("chooser_options", f"chooser options {opts}, expected {sorted(list(offered) + ['None'])}")
            if d["default_cids"]:
                # the preselected option must be (one of) the instance(s) marked DEFAULT, under whatever key it is offered
                if dflt not in offered or getattr(offered[dflt], "CID", None) not in d["default_cids"]:
                    fail("chooser_default", f"chooser preselects {dflt!r}; the mode(s) marked DEFAULT are {d['defaults']}")
            elif dflt != "None":
                fail("chooser_default", f"chooser preselects {dflt!r} although no mode is marked DEFAULT (expected 'None')")
            al = nt.getTable("/SmartDashboard").getEntry("Auto List").getStringArray(None)
            if al is None or sorted(al) != sorted(offered):
                fail("auto_list", f"'Auto List' is {al}, expected {sorted(offered)}")
            probe("modes_offered", len(offered))
            shape.append(("disc", len(d["healthy"]), len(d["faults"]), bool(d["defaults"])))

            # ------------------------------------------------ lifecycle
            sel_pub = ntcore.StringTopic(nt.getTopic("/SmartDashboard/Autonomous Mode/selected")).publish()
            as_pub = ntcore.StringTopic(nt.getTopic("/SmartDashboard/Auto Selector")).publish()
            m_sel_pending, m_sel = None, None       # chooser selection written / taken into account
            m_autosel = None
            m_active = None                          # name set acceptable for the active mode, or None
            m_active_cid = None
            started_once = False
            exited = False
            t_start = 0
            names = d["names"]

            def choose():
                """acceptable class ids for the mode that must become active, or None"""
                if m_autosel is not None and m_autosel in offered:
                    return {offered[m_autosel].CID}
                if m_sel is None:
                    return set(d["default_cids"]) if d["default_cids"] else None
                if m_sel in offered and m_sel != "None":
                    return {offered[m_sel].CID}
                return None

            def check_log(idx, op, got, want_hooks, active_names):
                """got: callbacks observed; want_hooks: list of hook names expected for the active mode"""
                nonlocal m_active_cid
                if active_names is None:
                    if got:
                        fail("callback_without_active_mode", f"op {idx} {op}: no mode is active but {got} was delivered", idx)
                    return
                hooks = [g[2] for g in got]
                if hooks != want_hooks:
                    fail("lifecycle", f"op {idx} {op}: expected callbacks {want_hooks} on the active mode, got {[(g[1], g[2]) for g in got]}", idx)
                for g in got:
                    if g[0] not in active_names:
                        fail("wrong_mode", f"op {idx} {op}: callback {g[2]} delivered to {g[0]} ({g[1]!r}), the chosen mode is {sorted(active_names)}", idx)
                    if m_active_cid is None:
                        m_active_cid = g[0]
                    elif g[0] != m_active_cid:
                        fail("two_modes_in_one_period", f"op {idx} {op}: callbacks went to {m_active_cid} and {g[0]} within one period", idx)

            seam = {"n": 0, "end_at": None, "end_kind": None, "late": 0}

            def wait_seam(handle):
                seam["n"] += 1
                alarm = hs.getNextNotifierTimeout()
                if world.now_us() < alarm:
                    world.goto(alarm)
                if seam["late"]:
                    world.advance(seam["late"])
                if seam["end_at"] is not None and seam["n"] >= seam["end_at"]:
                    if seam["end_kind"] == "exit":
                        sel.endCompetition()
                        fault("endCompetition")
                    else:
                        DS.setEnabled(seam["end_kind"] == "ds_teleop")
                        DS.setAutonomous(False)
                        DS.notifyNewData()
                        fault("ds_ends_period")
                if seam["n"] > 200:
                    world.EMIT({"status": "violation", "violation": Violation(prop, "hang", "run() does not return", sig=f"{prop}:hang").to_json(),
                                "probes": probes, "faults": faults, "shape": 0, "digest": "hang", "sim_us": 0, "nontrivial": False, "states": [], "trans": []})
                return real_wait(handle)

            hal.waitForNotifierAlarm = wait_seam
            for idx, op in enumerate(plan["ops"]):
                k = op[0]
                pre = (m_active is not None, started_once)
                if k == "adv":
                    world.advance(op[1])
                elif k == "select":
                    sel_pub.set(op[1])
                    m_sel_pending = op[1]
                    fault("dashboard_chooser_selection")
                elif k == "tick":
                    wpilib.SmartDashboard.updateValues()
                    if m_sel_pending is not None:
                        m_sel = m_sel_pending
                elif k == "autosel":
                    as_pub.set(op[1])
                    m_autosel = op[1]
                    fault("dashboard_auto_selector")
                elif k == "start":
                    if exited:
                        continue
                    if m_active is not None:
                        # a new period begins although disable() was never called for the previous one
                        # (allowed: "it is okay to not call disable()"): the mode is chosen afresh
                        probe("start_without_disable")
                    names_ok = choose()
                    t_start = world.now_us()
                    m_active, m_active_cid = names_ok, None
                    started_once = True
                    sel.start()
                    got = sim.take()
                    full_log += got
                    check_log(idx, op, got, ["on_enable"], names_ok)
                    probe("period_with_mode" if names_ok else "period_without_mode")
                    m_active = names_ok if names_ok else set()
                elif k == "periodic":
                    if not started_once:
                        continue
                    sel.periodic()
                    got = sim.take()
                    full_log += got
                    if m_active:
                        check_log(idx, op, got, ["on_iteration"], m_active)
                        t = got[0][3]
                        want = (world.now_us() - t_start) * 1e-6
                        if not isinstance(t, float) or abs(t - want) > TOL:
                            fail("elapsed_time", f"op {idx}: on_iteration received {t!r}, elapsed time since start is {want!r}", idx)
                    else:
                        if m_active is None:
                            probe("stray_periodic_while_inactive")
                        check_log(idx, op, got, [], None)
                elif k == "disable":
                    sel.disable()
                    got = sim.take()
                    full_log += got
                    if m_active:
                        check_log(idx, op, got, ["on_disable"], m_active)
                    else:
                        if m_active is None:
                            probe("stray_disable_while_inactive")
                        check_log(idx, op, got, [], None)
                    m_active, m_active_cid = None, None
                elif k == "run":
                    if m_active is not None:
                        continue
                    n, end_kind, period, late = op[1], op[2], op[3], op[4]
                    dis_at = op[5] if len(op) > 5 else 0
                    sim.disable_at, sim.iter_count, sim.selector = (dis_at if dis_at <= n else 0), 0, sel
                    if sim.disable_at:
                        fault("disable_called_inside_run_loop")
                    names_ok = choose()
                    m_active_cid = None
                    DS.setEnabled(n > 0)
                    DS.setAutonomous(True)
                    DS.setTest(False)
                    DS.notifyNewData()
                    seam.update(n=0, end_at=n if n > 0 else None, end_kind=end_kind, late=late)
                    t0 = world.now_us()
                    started_once = True
                    try:
                        sel.run(period)
                    except Exception as e:
                        fail("run_raised", f"op {idx} {op}: run() raised {type(e).__name__}: {e}", idx)
                    sim.disable_at = 0
                    got = sim.take()
                    full_log += got
                    iters = 0 if exited else n
                    if names_ok:
                        k_it = min(iters, dis_at) if (dis_at and dis_at <= n and not exited) else iters
                        # after disable() the mode has had its on_disable and nothing more is delivered, the loop goes on
                        check_log(idx, op, got, ["on_enable"] + ["on_iteration"] * k_it + ["on_disable"], names_ok)
                        ts = [g[3] for g in got if g[2] == "on_iteration"]
                        if any(b < a for a, b in zip(ts, ts[1:])):
                            fail("elapsed_time", f"op {idx}: elapsed times decrease: {ts}", idx)
                        for g in got:
                            if g[2] == "on_iteration" and abs(g[3] - (g[4] - t0) * 1e-6) > TOL:
                                fail("elapsed_time", f"op {idx}: on_iteration received {g[3]!r} at clock {g[4]} (period started at {t0})", idx)
                        probe("run_period_with_mode")
                    else:
                        check_log(idx, op, got, [], None)
                        probe("run_period_without_mode")
                    if seam["n"] != iters:
                        fail("iterations_per_period", f"op {idx} {op}: the loop waited {seam['n']} times, expected {iters}", idx)
                    if iters == 0:
                        probe("zero_iteration_run")
                    if end_kind == "exit" and n > 0:
                        exited = True
                    m_active, m_active_cid = None, None
                    DS.setEnabled(False)
                    DS.notifyNewData()
                if sel.active_mode is not None and not m_active:
                    fail("active_after_disable", f"op {idx} {op}: selector still has an active mode", idx)
                post = (bool(m_active), started_once)
                states.add(util.h48((k, post)))
                trans.add(util.h48((pre, k, post)))
                shape.append((k, bool(m_active)))
                if tr is not None:
                    tr.append(f"[{idx}] t={world.now_us()} {op} active={sorted(m_active) if m_active else m_active} log_tail={full_log[-3:]}")
    except Violation as v:
        status, violation = "violation", v.to_json()
    finally:
        if real_glob is not None:
            selmod.glob = real_glob
        hal.waitForNotifierAlarm = real_wait
    nontrivial = probes.get("period_with_mode", 0) + probes.get("run_period_with_mode", 0) > 0 and len(d["healthy"]) >= 2
    nontrivial = nontrivial or (bool(d["faults"]))
    res = {"status": status, "violation": violation, "probes": probes, "faults": faults, "shape": util.h48(shape),
           "digest": util.digest([full_log, sorted(sim.ctors.items())]), "sim_us": clk.covered(),
           "nontrivial": bool(nontrivial and status == "ok"), "states": sorted(states), "trans": sorted(trans)}
    if tr is not None:
        res["trace"] = tr
    return res


def simplify(plan):
    cfg = plan["config"]
    for i, m in enumerate(cfg["modules"]):
        yield dict(plan, config=dict(cfg, modules=cfg["modules"][:i] + cfg["modules"][i + 1:]))
        for j, c in enumerate(m["classes"]):
            m2 = dict(m, classes=m["classes"][:j] + m["classes"][j + 1:])
            yield dict(plan, config=dict(cfg, modules=cfg["modules"][:i] + [m2] + cfg["modules"][i + 1:]))
            for flag in ("disabled", "default", "ctor_fault"):
                if c[flag]:
                    c2 = dict(c, **{flag: False})
                    m2 = dict(m, classes=m["classes"][:j] + [c2] + m["classes"][j + 1:])
                    yield dict(plan, config=dict(cfg, modules=cfg["modules"][:i] + [m2] + cfg["modules"][i + 1:]))
        if m["import_fault"]:
            yield dict(plan, config=dict(cfg, modules=cfg["modules"][:i] + [dict(m, import_fault=None)] + cfg["modules"][i + 1:]))
    if cfg["pkg"] != "autonomous":
        yield dict(plan, config=dict(cfg, pkg="autonomous"))
    if cfg["namespace_pkg"]:
        yield dict(plan, config=dict(cfg, namespace_pkg=False, path_twice=False))
    if cfg.get("path_twice"):
        yield dict(plan, config=dict(cfg, path_twice=False))
    if cfg["ctor_args"]:
        yield dict(plan, config=dict(cfg, ctor_args=0))
    for i, op in enumerate(plan["ops"]):
        if op[0] == "run" and op[1] > 1:
            yield dict(plan, ops=plan["ops"][:i] + [["run", 1] + op[2:]] + plan["ops"][i + 1:])
