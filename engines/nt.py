"""Engine NT: magicbot tunables between robot code and NetworkTables clients
(property C09): per-instance values at the documented key, typed topics,
read-your-writes from either side under arbitrary interleavings, writeDefault
semantics at setup and at robot-code restart (new instance, NT values survive)."""
import random

from simkit import util
from simkit.util import GRID_US, Violation

ENGINE = "nt"

# kind -> (NT type string, sample values (JSON-encodable), source form variants)
KINDS = {
    "bool": ("boolean", [True, False]),
    "int": ("int", [0, 1, -5, 2**40, 7]),
    "float": ("double", [0.0, 1.5, -2.25, 1e-9, 12345.678]),
    "str": ("string", ["", "a", "hello world", "ünï"]),
    "bytes": ("raw", [{"b": ""}, {"b": "00ff"}, {"b": "6162"}]),
    # (values a few 1e-10 apart: wpimath's == is tolerant to 1e-9, NetworkTables and the property are not)
    "struct": ("struct:Rotation2d", [{"rot": 0.0}, {"rot": 0.5}, {"rot": 0.5 + 4e-10}, {"rot": 1.0}, {"rot": 0.5 + 8e-10}]),
    "bools": ("boolean[]", [[True], [False, True], [True, True, False]]),
    "ints": ("int[]", [[1], [2, 3], [0, -1, 2**33]]),
    "floats": ("double[]", [[1.0], [2.5, -3.0], [0.125]]),
    "strs": ("string[]", [["a"], ["b", "c"], ["", "x y"]]),
    "structs": ("struct:Translation2d[]", [[{"tr": [1.0, 2.0]}], [{"tr": [0.0, 0.0]}, {"tr": [3.0, -1.0]}], [{"tr": [1.0 + 4e-10, 2.0]}]]),
    # type-hinted empty sequences: the default is empty, the hint decides the type
    "e_ints": ("int[]", [[1], [2, 3], []]),
    "e_floats": ("double[]", [[1.0], [], [2.5, 0.5]]),
    "e_strs": ("string[]", [["q"], [], ["r", "s"]]),
    "e_bools": ("boolean[]", [[True], [], [False, False]]),
    "t_ints": ("int[]", [[4], [5, 6]]),        # tuple default
    # the type hint decides even when the default alone would say otherwise
    "h_float": ("double", [0.0, 0.25, 3.0, -7.5]),         # kp: float = tunable(0)
    "h_floats": ("double[]", [[1.0, 2.0], [0.5], [3.0, 4.25]]),   # gains: Sequence[float] = tunable([1, 2])
}
EMPTY_FORMS = ["generic", "classvar", "inst"]
ELEM = {"e_ints": "int", "e_floats": "float", "e_strs": "str", "e_bools": "bool"}


def gen_config(rng):
    ncls = rng.choice([1, 1, 2, 3])
    classes = []
    for i in range(ncls):
        base = rng.choice([c["name"] for c in classes]) if classes and rng.random() < 0.5 else None
        tun = []
        for j in range(rng.choice([1, 2, 3, 4])):
            kind = rng.choice(list(KINDS))
            vals = KINDS[kind][1]
            if kind.startswith("e_"):
                default = []
            elif kind == "h_float":
                default = rng.choice([0, 2, -3])          # an integer literal under a float hint
            elif kind == "h_floats":
                default = rng.choice([[1, 2], [0], [5, 6, 7]])
            else:
                default = rng.choice(vals)
            tun.append({"attr": f"t{i}_{j}", "kind": kind, "default": default, "form": rng.choice(EMPTY_FORMS),
                        "quoted": rng.random() < 0.25,      # the annotation is a string (from __future__ import annotations)
                        "tuple_empty": rng.random() < 0.5,
                        "subtable": rng.choice([None, None, "state", "cfg/deep"]), "writeDefault": rng.random() < 0.6})
        classes.append({"name": f"K{i}", "base": base, "tunables": tun,
                        # an owner that evaluates false (an empty container, a latch): tunables work as on any other
                        "falsy": rng.choice(["len0", "bool"]) if rng.random() < 0.1 else None})
    if rng.random() < 0.15:
        # diamond: Root declares a tunable, one of the two middle classes redeclares it with another default, the leaf
        # inherits from both (in either order): the redeclaration is the one Python's MRO selects
        kind = rng.choice(["int", "float", "str", "bool", "floats", "ints"])
        vals = KINDS[kind][1]
        root_t = {"attr": "td", "kind": kind, "default": vals[0], "form": "generic", "tuple_empty": False, "subtable": None, "writeDefault": True}
        right_t = dict(root_t, default=vals[1 % len(vals)] if vals[1 % len(vals)] != vals[0] else vals[-1], writeDefault=rng.random() < 0.7)
        classes += [{"name": "DRoot", "base": None, "bases": [], "tunables": [root_t]},
                    {"name": "DLeft", "base": "DRoot", "bases": ["DRoot"], "tunables": [{"attr": "tl", "kind": "int", "default": 3, "form": "generic", "tuple_empty": False, "subtable": None, "writeDefault": True}]},
                    {"name": "DRight", "base": "DRoot", "bases": ["DRoot"], "tunables": [right_t]},
                    {"name": "DLeaf", "base": None, "bases": rng.choice([["DLeft", "DRight"], ["DRight", "DLeft"]]), "tunables": []}]
    insts = []
    used = set()
    for i in range(rng.choice([1, 2, 2, 3])):
        cls = rng.choice(classes)["name"] if not (classes[-1]["name"] == "DLeaf" and i == 0) else "DLeaf"
        prefix = rng.choice(["components", "components", "autonomous", None])
        name = "robot" if prefix is None and rng.random() < 0.7 else rng.choice(["shooter", "arm", "Two Words", "x1", "drive"])
        if (prefix, name) in used:
            continue
        used.add((prefix, name))
        insts.append({"cls": cls, "name": name, "prefix": prefix})
    cfg = {"classes": classes, "instances": insts, "pre": [], "boot_us": rng.choice([0, 64, 6400]) * GRID_US}
    return cfg


def attrs_of(cfg, clsname):
    """Effective tunables of a class: Python's own MRO decides which declaration of a name counts."""
    cls = {c["name"]: c for c in cfg["classes"]}
    dummies = {}

    def mk(n):
        if n not in dummies:
            c = cls[n]
            bases = c.get("bases") if c.get("bases") is not None else ([c["base"]] if c.get("base") else [])
            dummies[n] = type(n, tuple(mk(b) for b in bases), {})
        return dummies[n]

    out = {}
    for k in reversed(mk(clsname).__mro__):
        if k.__name__ in cls:
            for t in cls[k.__name__]["tunables"]:
                out.pop(t["attr"], None)
                out[t["attr"]] = t
    return list(out.values())


def key_of(inst, t):
    prefix = f"/{inst['name']}" if inst["prefix"] is None else f"/{inst['prefix']}/{inst['name']}"
    if t["subtable"]:
        return f"{prefix}/{t['subtable']}/{t['attr']}"
    return f"{prefix}/{t['attr']}"


def gen_framework_config(rng):
    """Owners set up by the framework itself: components, the robot and an autonomous mode of a real MagicRobot."""
    cfg = gen_config(rng)
    classes = cfg["classes"]
    insts = []
    names = ["shooter", "arm", "drive"]
    rng.shuffle(names)
    for i in range(rng.choice([1, 2, 3])):
        insts.append({"cls": rng.choice(classes)["name"], "name": names[i], "prefix": "components"})
    if rng.random() < 0.7:
        insts.append({"cls": rng.choice(classes)["name"], "name": "robot", "prefix": None})
    if rng.random() < 0.7:
        insts.append({"cls": rng.choice(classes)["name"], "name": rng.choice(["Two Ball", "auto1", "Center"]), "prefix": "autonomous"})
    autos = [i for i in insts if i["prefix"] == "autonomous"]
    if autos and rng.random() < 0.35:
        # during a match (FMS attached) a second mode class with the same MODE_NAME is tolerated by the selector;
        # it is still set up under /autonomous/<MODE_NAME>/
        insts.append(dict(autos[0]))
        cfg["fms"] = True
    cfg["instances"] = insts
    cfg["framework"] = True
    cfg["pre"] = []
    return cfg


def generate(seed, prop, tier, index=0):
    rng = random.Random(seed)
    cfg = gen_framework_config(rng) if index % 8 == 3 else gen_config(rng)
    # values that exist before setup (left by a dashboard / an earlier run of the robot code)
    for ii, inst in enumerate(cfg["instances"]):
        for t in attrs_of(cfg, inst["cls"]):
            if rng.random() < 0.2:
                cfg["pre"].append([ii, t["attr"], rng.choice(KINDS[t["kind"]][1])])
    ops = []
    n = rng.choice([5, 15, 30, 60] if tier == "quick" else [10, 40, 100, 200])
    for _ in range(n):
        ii = rng.randrange(len(cfg["instances"]))
        al = attrs_of(cfg, cfg["instances"][ii]["cls"])
        t = rng.choice(al)
        r = rng.random()
        if r < 0.3:
            ops.append(["set", ii, t["attr"], rng.choice(KINDS[t["kind"]][1])])
        elif r < 0.6:
            ops.append(["cset", ii, t["attr"], rng.choice(KINDS[t["kind"]][1])])
        elif r < 0.75:
            ops.append(["get", ii, t["attr"]])
        elif r < 0.9:
            ops.append(["cget", ii, t["attr"]])
        elif r < 0.95 and not cfg.get("framework"):
            ops.append(["restart", ii])
        else:
            ops.append(["adv", rng.choice([0, 1, 64]) * GRID_US])
    return {"engine": ENGINE, "property": prop, "seed": seed, "config": cfg, "ops": ops}


# =============================================================== execution

def _src_default(t):
    k, d = t["kind"], t["default"]
    if k == "bytes":
        return f"bytes.fromhex({d['b']!r})"
    if k == "struct":
        return f"Rotation2d({d['rot']!r})"
    if k == "structs":
        return "[" + ", ".join(f"Translation2d({x['tr'][0]!r}, {x['tr'][1]!r})" for x in d) + "]"
    if k == "t_ints":
        return repr(tuple(d))
    if k.startswith("e_"):
        return "()" if t["tuple_empty"] else "[]"
    return repr(d)


def q(t, ann):
    return repr(ann) if t.get("quoted") else ann


def build_source(cfg):
    L = ["from typing import ClassVar, List", "from collections.abc import Sequence", "from magicbot import tunable",
         "from wpimath.geometry import Rotation2d, Translation2d", ""]
    for c in cfg["classes"]:
        bases = c.get("bases") if c.get("bases") is not None else ([c["base"]] if c["base"] else [])
        L.append(f"class {c['name']}" + (f"({', '.join(bases)})" if bases else "") + ":")
        if not c["tunables"] and not c.get("falsy"):
            L.append("    pass")
        if c.get("falsy") == "len0":
            L += ["    def __len__(self):", "        return 0"]
        elif c.get("falsy") == "bool":
            L += ["    def __bool__(self):", "        return False"]
        for t in c["tunables"]:
            kw = ""
            if t["subtable"]:
                kw += f", subtable={t['subtable']!r}"
            if not t["writeDefault"]:
                kw += ", writeDefault=False"
            d = _src_default(t)
            if t["kind"] in ("h_float", "h_floats"):
                ann = "float" if t["kind"] == "h_float" else "Sequence[float]"
                if t["form"] == "generic":
                    L.append(f"    {t['attr']} = tunable[{ann}]({d}{kw})")
                elif t["form"] == "classvar":
                    L.append(f"    {t['attr']}: {q(t, f'ClassVar[tunable[{ann}]]')} = tunable({d}{kw})")
                else:
                    L.append(f"    {t['attr']}: {q(t, ann)} = tunable({d}{kw})")
            elif t["kind"].startswith("e_"):
                el = ELEM[t["kind"]]
                if t["form"] == "generic":
                    L.append(f"    {t['attr']} = tunable[Sequence[{el}]]({d}{kw})")
                elif t["form"] == "classvar":
                    L.append(f"    {t['attr']}: {q(t, f'ClassVar[tunable[list[{el}]]]')} = tunable({d}{kw})")
                else:
                    L.append(f"    {t['attr']}: {q(t, f'List[{el}]')} = tunable({d}{kw})")
            else:
                L.append(f"    {t['attr']} = tunable({d}{kw})")
        L.append("")
    return "\n".join(L) + "\n"


def execute(plan, trace=False):
    from simkit import world
    import sys
    import types
    from magicbot.magic_tunable import setup_tunables
    from wpimath.geometry import Rotation2d, Translation2d
    ntcore = world.ntcore
    cfg, prop = plan["config"], plan["property"]
    world.goto(cfg["boot_us"])
    clk = world.SimClock()
    nt = ntcore.NetworkTableInstance.getDefault()
    probes, faults, shape, log = {}, {}, [], []
    states, trans = set(), set()
    tr = [] if trace else None

    def probe(k, n=1):
        probes[k] = probes.get(k, 0) + n

    def dec(kind, v):
        if kind == "h_float":
            return float(v)
        if kind == "h_floats":
            return [float(x) for x in v]
        if kind == "bytes":
            return bytes.fromhex(v["b"])
        if kind == "struct":
            return Rotation2d(v["rot"])
        if kind == "structs":
            return [Translation2d(x["tr"][0], x["tr"][1]) for x in v]
        if isinstance(v, list):
            return list(v)
        return v

    def same(kind, a, b):
        """strict equality incl. element types"""
        if kind == "struct":
            return isinstance(a, Rotation2d) and a.radians() == b.radians()
        if kind == "structs":
            return isinstance(a, (list, tuple)) and len(a) == len(b) and all(
                isinstance(x, Translation2d) and x.X() == y.X() and x.Y() == y.Y() for x, y in zip(a, b))
        if kind in ("bools", "e_bools"):
            # pyntcore's typed boolean-array getters return 0/1 integers; equality of the values is what C09 states
            return isinstance(a, (list, tuple)) and len(a) == len(b) and all(isinstance(x, (bool, int)) and x in (0, 1) and bool(x) == y for x, y in zip(a, b))
        if isinstance(b, list):
            return isinstance(a, (list, tuple)) and len(a) == len(b) and all(type(x) is type(y) and x == y for x, y in zip(a, b))
        return type(a) is type(b) and a == b

    def typed(kind, topic):
        return {"bool": ntcore.BooleanTopic, "int": ntcore.IntegerTopic, "float": ntcore.DoubleTopic, "str": ntcore.StringTopic,
                "bools": ntcore.BooleanArrayTopic, "ints": ntcore.IntegerArrayTopic, "floats": ntcore.DoubleArrayTopic,
                "h_float": ntcore.DoubleTopic, "h_floats": ntcore.DoubleArrayTopic,
                "strs": ntcore.StringArrayTopic, "e_ints": ntcore.IntegerArrayTopic, "e_floats": ntcore.DoubleArrayTopic,
                "e_strs": ntcore.StringArrayTopic, "e_bools": ntcore.BooleanArrayTopic, "t_ints": ntcore.IntegerArrayTopic,
                "bytes": ntcore.RawTopic,
                "struct": lambda t: ntcore.StructTopic(t, Rotation2d), "structs": lambda t: ntcore.StructArrayTopic(t, Translation2d)}[kind](topic)

    status, violation = "ok", None
    try:
        src = build_source(cfg)
        mod = types.ModuleType("verif_generated_nt")
        sys.modules["verif_generated_nt"] = mod
        try:
            exec(compile(src, "<generated owners>", "exec"), mod.__dict__)
        except Exception as e:
            raise Violation(prop, "definition", f"defining the owner classes raised {type(e).__name__}: {e}", sig=f"{prop}:definition")

        insts = cfg["instances"]
        tdefs = [{t["attr"]: t for t in attrs_of(cfg, i["cls"])} for i in insts]
        keys = [{a: key_of(i, t) for a, t in td.items()} for i, td in zip(insts, tdefs)]
        model = {}          # topic key -> current value (decoded) ; absent = no value yet
        pubs, subs = {}, {}

        def client_pub(ii, attr):
            k = keys[ii][attr]
            if k not in pubs:
                tt = typed(tdefs[ii][attr]["kind"], nt.getTopic(k))
                pubs[k] = tt.publish("raw") if tdefs[ii][attr]["kind"] == "bytes" else tt.publish()
            return pubs[k]

        def client_read(ii, attr):
            k = keys[ii][attr]
            kind = tdefs[ii][attr]["kind"]
            if k not in subs:
                tt = typed(kind, nt.getTopic(k))
                if kind == "bytes":
                    subs[k] = tt.subscribe("raw", b"<none>")
                elif kind == "struct":
                    subs[k] = tt.subscribe(Rotation2d(-9.0))
                elif kind == "structs" or isinstance(KINDS[kind][1][0], list):
                    subs[k] = tt.subscribe([])
                else:
                    subs[k] = tt.subscribe({"bool": False, "int": -999, "float": -999.0, "str": "<none>", "h_float": -999.0}[kind])
            v = subs[k].get()
            return list(v) if isinstance(v, (list, tuple)) else v

        for ii, attr, v in cfg["pre"]:
            if attr in tdefs[ii]:
                kind = tdefs[ii][attr]["kind"]
                client_pub(ii, attr).set(dec(kind, v))
                model[keys[ii][attr]] = dec(kind, v)
                faults["pre_existing_value"] = faults.get("pre_existing_value", 0) + 1

        objs = [None] * len(insts)
        if cfg.get("framework"):
            objs = _framework_setup(world, cfg, mod, insts, prop, probe)
            for ii, inst in enumerate(insts):
                for a, t in tdefs[ii].items():
                    k = keys[ii][a]
                    if t["writeDefault"] or k not in model:
                        if k in model:
                            probe("default_overwrote_existing")
                        model[k] = dec(t["kind"], t["default"])
                    else:
                        probe("existing_value_preserved")
                    topic = nt.getTopic(k)
                    want = KINDS[t["kind"]][0]
                    if not topic.exists() or topic.getTypeString() != want:
                        raise Violation(prop, "topic_type", f"framework setup: topic {k} has type {topic.getTypeString() if topic.exists() else '<no topic>'!r}, expected {want!r}",
                                        sig=f"{prop}:topic_type")

        def setup(ii, idx):
            inst = insts[ii]
            try:
                o = getattr(mod, inst["cls"])()
                if not o:
                    faults["owner_evaluates_false"] = faults.get("owner_evaluates_false", 0) + 1
                setup_tunables(o, inst["name"], inst["prefix"])
            except Exception as e:
                raise Violation(prop, "setup_raised", f"op {idx}: setup_tunables({inst['cls']}, {inst['name']!r}, {inst['prefix']!r}) raised {type(e).__name__}: {e}",
                                sig=f"{prop}:setup_raised")
            objs[ii] = o
            for a, t in tdefs[ii].items():
                k = keys[ii][a]
                d = dec(t["kind"], t["default"])
                if t["writeDefault"] or k not in model:
                    if k in model:
                        probe("default_overwrote_existing")
                    model[k] = d
                else:
                    probe("existing_value_preserved")
                topic = nt.getTopic(k)
                want = KINDS[t["kind"]][0]
                if not topic.exists() or topic.getTypeString() != want:
                    raise Violation(prop, "topic_type", f"op {idx}: topic {k} has type {topic.getTypeString() if topic.exists() else '<no topic>'!r}, expected {want!r}",
                                    sig=f"{prop}:topic_type")

        def verify(idx, op, what):
            """every instance, every attribute, both sides: the latest value of ITS topic"""
            for ii in range(len(insts)):
                if objs[ii] is None:
                    continue
                for a, t in tdefs[ii].items():
                    k = keys[ii][a]
                    want = model[k]
                    try:
                        got = getattr(objs[ii], a)
                    except Exception as e:
                        raise Violation(prop, "read_raised", f"op {idx} {op}: reading {insts[ii]['name']}.{a} raised {type(e).__name__}: {e}", sig=f"{prop}:read_raised")
                    if not same(t["kind"], got, want):
                        raise Violation(prop, "python_read", f"op {idx} {op} ({what}): {insts[ii]['name']}.{a} reads {got!r}, latest value of {k} is {want!r}",
                                        sig=f"{prop}:python_read", at=idx)
                    got = client_read(ii, a)
                    if not same(t["kind"], got, want):
                        raise Violation(prop, "client_read", f"op {idx} {op} ({what}): a NetworkTables client reads {got!r} at {k}, latest value is {want!r}",
                                        sig=f"{prop}:client_read", at=idx)

        if not cfg.get("framework"):
            for ii in range(len(insts)):
                setup(ii, -1)
        verify(-1, "setup", "after setup")
        last_writer = {}
        for idx, op in enumerate(plan["ops"]):
            k = op[0]
            if k == "adv":
                world.advance(op[1])
                continue
            ii = op[1]
            if ii >= len(insts):
                continue
            if k == "restart":
                # robot code dies and comes back: its own publishers vanish; a dashboard that
                # caches the values re-publishes them, so the values survive on the client's handles
                for a, t in tdefs[ii].items():
                    client_pub(ii, a).set(model[keys[ii][a]])
                objs[ii] = None
                import gc
                gc.collect()
                setup(ii, idx)
                faults["restart_nt_survives"] = faults.get("restart_nt_survives", 0) + 1
                verify(idx, op, "after restart")
                shape.append(("restart",))
                continue
            attr = op[2]
            if attr not in tdefs[ii]:
                continue
            t = tdefs[ii][attr]
            key = keys[ii][attr]
            if k in ("set", "cset"):
                v = dec(t["kind"], op[3])
                try:
                    if k == "set":
                        setattr(objs[ii], attr, v)
                    else:
                        client_pub(ii, attr).set(v)
                except Exception as e:
                    raise Violation(prop, "write_raised", f"op {idx} {op}: {type(e).__name__}: {e}", sig=f"{prop}:write_raised")
                model[key] = v
                if last_writer.get(key) not in (None, k):
                    probe("both_sides_wrote_same_topic")
                last_writer[key] = k
                probe("python_writes" if k == "set" else "client_writes")
                verify(idx, op, "after write")
            else:
                verify(idx, op, "read")
                probe("reads")
            log.append([idx, k, key])
            shape.append((k, t["kind"]))
            s = (k, t["kind"], t["writeDefault"], bool(t["subtable"]), insts[ii]["prefix"])
            states.add(util.h48(s))
            if tr is not None:
                tr.append(f"[{idx}] {op} key={key} model={model[key]!r}")
        if len(insts) > 1:
            probe("multi_instance_runs")
    except Violation as v:
        status, violation = "violation", v.to_json()
    res = {"status": status, "violation": violation, "probes": probes, "faults": faults, "shape": util.h48(shape),
           "digest": util.digest(log), "sim_us": clk.covered(),
           "nontrivial": bool(status == "ok" and probes.get("both_sides_wrote_same_topic", 0) > 0),
           "states": sorted(states), "trans": []}
    if tr is not None:
        tr.insert(0, "generated owners:\n" + build_source(cfg) + f"\ninstances: {cfg['instances']}\npre-existing: {cfg['pre']}")
        res["trace"] = tr
    return res


def _framework_setup(world, cfg, mod, insts, prop, probe):
    """Let a real MagicRobot create and bind the owners: components by annotation, the robot class itself,
    an autonomous mode discovered by the selector.  Returns the owner objects in instance order."""
    import builtins
    import importlib
    import os
    import shutil
    import sys
    import magicbot
    rundir = os.path.join(os.getcwd(), "run")
    shutil.rmtree(rundir, ignore_errors=True)
    os.makedirs(os.path.join(rundir, "autonomous"))
    os.chdir(rundir)
    open(os.path.join(rundir, "autonomous", "__init__.py"), "w").close()
    builtins._verif_owner_module = mod
    auto = [i for i in insts if i["prefix"] == "autonomous"]
    for i, inst in enumerate(auto):
        with open(os.path.join(rundir, "autonomous", f"m{i}.py"), "w") as f:
            f.write("import builtins\n_m = builtins._verif_owner_module\n"
                    f"class Mode{i}(_m.{inst['cls']}):\n    MODE_NAME = {inst['name']!r}\n"
                    "    def on_enable(self): pass\n    def on_disable(self): pass\n    def on_iteration(self, tm): pass\n")
    sys.path.insert(0, rundir)
    importlib.invalidate_caches()
    if cfg.get("fms"):
        DS = world.wpilib.simulation.DriverStationSim
        DS.setFmsAttached(True)
        DS.notifyNewData()
    ns = mod.__dict__
    ns["magicbot"] = magicbot
    L = []
    comps = [i for i in insts if i["prefix"] == "components"]
    for i in comps:
        L += [f"class Comp_{i['name']}({i['cls']}):", "    def execute(self):", "        pass", ""]
    rob = [i for i in insts if i["prefix"] is None]
    bases = "magicbot.MagicRobot" + (f", {rob[0]['cls']}" if rob else "")
    L.append(f"class Robot({bases}):")
    for i in comps:
        L.append(f"    {i['name']}: Comp_{i['name']}")
    L += ["    def createObjects(self):", "        pass", "    def teleopPeriodic(self):", "        pass", ""]
    try:
        exec(compile("\n".join(L) + "\n", "<generated robot>", "exec"), ns)
        robot = ns["Robot"]()
        robot.robotInit()
    except Exception as e:
        import traceback
        raise Violation(prop, "framework_setup_raised", f"MagicRobot.robotInit() raised {type(e).__name__}: {e} :: {traceback.format_exc()[-500:]}",
                        sig=f"{prop}:framework_setup_raised")
    probe("framework_setup_runs")
    objs = []
    taken = set()
    for inst in insts:
        if inst["prefix"] == "components":
            objs.append(getattr(robot, inst["name"]))
        elif inst["prefix"] is None:
            objs.append(robot)
        else:
            cands = [m for m in robot._automodes.modes.values() if getattr(m, "MODE_NAME", None) == inst["name"] and id(m) not in taken]
            if not cands:
                raise Violation(prop, "framework_mode_missing", f"the selector does not offer a mode named {inst['name']!r} (modes: {sorted(robot._automodes.modes)})",
                                sig=f"{prop}:framework_mode_missing")
            taken.add(id(cands[0]))
            objs.append(cands[0])
    return objs


def simplify(plan):
    cfg = plan["config"]
    if cfg["pre"]:
        yield dict(plan, config=dict(cfg, pre=[]))
        for i in range(len(cfg["pre"])):
            yield dict(plan, config=dict(cfg, pre=cfg["pre"][:i] + cfg["pre"][i + 1:]))
    used = {(op[1], op[2]) for op in plan["ops"] if len(op) > 2}
    used_attrs = {a for _, a in used} | {p[1] for p in cfg["pre"]}
    for ci, c in enumerate(cfg["classes"]):
        for ti, t in enumerate(c["tunables"]):
            if t["attr"] not in used_attrs and sum(len(x["tunables"]) for x in cfg["classes"]) > 1:
                c2 = dict(c, tunables=c["tunables"][:ti] + c["tunables"][ti + 1:])
                if c2["tunables"] or any(x["base"] == c["name"] for x in cfg["classes"]) or True:
                    yield dict(plan, config=dict(cfg, classes=cfg["classes"][:ci] + [c2] + cfg["classes"][ci + 1:]))
            if t["subtable"]:
                c2 = dict(c, tunables=c["tunables"][:ti] + [dict(t, subtable=None)] + c["tunables"][ti + 1:])
                yield dict(plan, config=dict(cfg, classes=cfg["classes"][:ci] + [c2] + cfg["classes"][ci + 1:]))
    if len(cfg["instances"]) > 1:
        used_i = {op[1] for op in plan["ops"] if len(op) > 1 and op[0] != "adv"} | {p[0] for p in cfg["pre"]}
        last = len(cfg["instances"]) - 1
        if last not in used_i:
            yield dict(plan, config=dict(cfg, instances=cfg["instances"][:-1]))
