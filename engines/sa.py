"""Engine SA: robotpy_ext.autonomous.StatefulAutonomous under simulated autonomous
periods (property C15)."""
import itertools
import random

from simkit import util
from simkit.util import GRID_US, Inconclusive, Violation
from models.sa_model import SAModel

ENGINE = "sa"
PARAMS = ("tm", "state_tm", "initial_call")
ALL_SIGS = [list(p) for r in range(4) for p in itertools.permutations(PARAMS, r)]
TOL = 1e-9


def _dur(dyadic, rng):
    if dyadic:
        return rng.choice([0, 1, 1, 2, 2, 4, 8, 16, 32, 64, 128]) / 64.0
    return rng.choice([0.0, 0.02, 0.05, 0.1, 0.25, 0.3, 0.5, 1.0, 1.5, 2, 5, round(rng.uniform(0, 3), 3)])


def gen_config(rng):
    dyadic = rng.random() < 0.55
    n = rng.choice([1, 2, 2, 3, 3, 4, 5])
    names = [f"s{i}" for i in range(n)]
    full = rng.random() < 0.5
    states = []
    for nm in names:
        kind = "timed" if rng.random() < 0.7 else "plain"
        st = {"name": nm, "kind": kind, "sig": list(rng.choice(list(itertools.permutations(PARAMS, 3)))) if full else rng.choice(ALL_SIGS)}
        if kind == "timed":
            st["duration"] = _dur(dyadic, rng)
            st["next"] = None if rng.random() < 0.3 else rng.choice(names)
        states.append(st)
    vars_ = []
    for i in range(rng.choice([0, 0, 1, 2])):
        vars_.append({"name": f"v{i}", "default": rng.choice([1, 0.5, True, False, "left", 3]), "prefix": rng.random() < 0.7})
    # documented API that puts an attribute of the *instance* under the name of a state: a dashboard variable or a
    # constructor-supplied component called like a state function (the state itself is declared on the class)
    if vars_ and rng.random() < 0.15:
        vars_[0]["name"] = rng.choice(names)
    ctor_comps = [rng.choice(names)] if rng.random() < 0.1 else []
    family = None
    timed_names = [x["name"] for x in states if x["kind"] == "timed"]
    if rng.random() < 0.25:
        # a family of modes: Mode2 derives from Mode and redefines some state functions (other successor, other signature)
        over = {}
        extra = None
        if rng.random() < 0.5:
            # the derived mode also adds a state of its own (reached from one of its redefined states)
            extra = {"name": "sx", "kind": "timed", "duration": _dur(dyadic, rng), "next": rng.choice(names + [None]),
                     "sig": rng.choice(ALL_SIGS)}
        for x in states:
            if rng.random() < 0.4:
                over[x["name"]] = {"sig": rng.choice(ALL_SIGS), "next": (rng.choice(names + [None] + (["sx", "sx"] if extra else [])) if x["kind"] == "timed" else None)}
                if x["kind"] == "timed" and rng.random() < 0.5:
                    over[x["name"]]["duration"] = _dur(dyadic, rng)      # ... and may change a duration
        family = {"over": over, "run_derived": rng.random() < 0.6, "other_when": rng.choice(["before", "after", "after"]), "extra": extra}
    return {"dyadic": dyadic, "states": states, "first": rng.choice(names[:2]), "vars": vars_, "family": family,
            "mode_name": rng.choice(["Drive Forward", "M", "two_ball"]), "ctor_comps": ctor_comps,
            "boot_us": (rng.choice([0, 64, 64000]) * GRID_US) if dyadic else rng.choice([0, 33333, 7_000_001])}


def effective(cfg):
    """The configuration of the class whose instance is run (redefinitions of the derived mode applied)."""
    fam = cfg.get("family")
    if not fam or not fam["run_derived"]:
        return dict(cfg, run_cls="Mode")
    sts = []
    for st in cfg["states"]:
        o = fam["over"].get(st["name"])
        if o:
            st = dict(st, sig=o["sig"], tag="Mode2")
            if st["kind"] == "timed":
                st["next"] = o["next"]
                if "duration" in o:
                    st["duration"] = o["duration"]
        sts.append(st)
    if fam.get("extra"):
        sts.append(dict(fam["extra"], tag="Mode2"))
    return dict(cfg, states=sts, mode_name=cfg["mode_name"] + " v2", run_cls="Mode2")


def generate(seed, prop, tier, index=0):
    if index % 6 == 5:
        from engines import robot
        return robot.generate_integration(seed, prop, tier, index)
    rng = random.Random(seed)
    cfg = gen_config(rng)
    model = SAModel(effective(cfg), exact=cfg["dyadic"])
    dy = cfg["dyadic"]
    g = GRID_US if dy else 1
    names = [s["name"] for s in cfg["states"]]
    timed = [s for s in cfg["states"] if s["kind"] == "timed"]
    style = {"p_next": rng.choice([0.0, 0.05, 0.15, 0.3]), "p_done": rng.choice([0.0, 0.02, 0.08]),
             "p_aim": rng.choice([0.0, 0.3, 0.6]), "p_pause": rng.choice([0.0, 0.05, 0.15]),
             "period": rng.choice([1, 1, 2, 4]) * GRID_US if dy else rng.choice([20000, 20000, 10000, 50000]),
             "jitter": 0 if dy else rng.choice([0, 100, 5000]), "p_nt": rng.choice([0.0, 0.1, 0.3])}
    ops = []
    nper = rng.choice([1, 1, 2, 2, 3, 4])
    for per in range(nper):
        if per and rng.random() < 0.2:
            ops.append(["newinst"])
            model.construct()
        while timed and rng.random() < style["p_nt"]:
            st = rng.choice(timed)
            ops.append(["nt", st["name"] + "_duration", float(_dur(dy, rng))])
            model.nt_write(ops[-1][1], ops[-1][2])
        for v in cfg["vars"]:
            if rng.random() < style["p_nt"]:
                d = v["default"]
                nv = (not d) if isinstance(d, bool) else (rng.choice(["left", "right", ""]) if isinstance(d, str) else float(rng.choice([0, 2, -1.5, 7])))
                ops.append(["nt", v["name"], nv])
                model.nt_write(v["name"], nv)
        stall = rng.choice([0, 0, 0, 1, 3, 40]) * (GRID_US if dy else 7001)
        ops.append(["enable", stall])
        model.on_enable()
        tm_us = stall
        p_raise = rng.choice([0, 0, 0, 0.05, 0.15])
        for _ in range(rng.choice([3, 8, 15, 30, 50] if tier == "quick" else [3, 10, 30, 60, 100])):
            act = None
            r = rng.random()
            if r < style["p_next"]:
                act = ["next", rng.choice(names)]
            elif r < style["p_next"] + style["p_done"]:
                act = ["done", None]
            if p_raise and rng.random() < p_raise:
                # fault: the state function raises after doing what it does; the caller (the selector with the FMS
                # attached) swallows it and keeps iterating
                act = (act or [None, None]) + [True]
            ops.append(["iter", act])
            try:
                model.on_iteration(tm_us * 1e-6, act)
            except Inconclusive:
                pass
            model.take()
            # mid-period dashboard edit: must not affect this period
            if timed and rng.random() < style["p_nt"] * 0.2:
                st = rng.choice(timed)
                ops.append(["nt", st["name"] + "_duration", float(_dur(dy, rng))])
                model.nt_write(ops[-1][1], ops[-1][2])
            dt = None
            if model.cur is not None and not model.fresh and model.expires < 1e8 and rng.random() < style["p_aim"]:
                d = round(model.expires * 1e6) - tm_us + (rng.choice([0, 0, -g, g, g]) if dy else rng.choice([-1, 1, 2, -30, 30]))
                if d > 0:
                    dt = int(d)
            if dt is None:
                if rng.random() < style["p_pause"]:
                    dt = rng.choice([64, 200, 700]) * GRID_US if dy else rng.choice([900000, 3_000_000])
                else:
                    dt = max(1, style["period"] + rng.randint(-style["jitter"], style["jitter"]))
            ops.append(["adv", dt])
            tm_us += dt
        ops.append(["disable"])
    return {"engine": ENGINE, "property": prop, "seed": seed, "config": cfg, "ops": ops}


def build_source(cfg):
    L = [f"class Mode(StatefulAutonomous):", f"    MODE_NAME = {cfg['mode_name']!r}", "    def initialize(self):"]
    if cfg["vars"]:
        for v in cfg["vars"]:
            L.append(f"        self.register_sd_var({v['name']!r}, {v['default']!r}, add_prefix={bool(v['prefix'])})")
    else:
        L.append("        pass")
    for st in cfg["states"]:
        first = st["name"] == cfg["first"]
        if st["kind"] == "timed":
            deco = f"@timed_state(duration={st['duration']!r}, next_state={st.get('next')!r}, first={first})"
        else:
            deco = f"@state(first={first})" if first else "@state"
        args = ", ".join(["self"] + st["sig"])
        d = "{" + ", ".join(f"{a!r}: {a}" for a in st["sig"]) + "}"
        L += [f"    {deco}", f"    def {st['name']}({args}):", f"        self._sim.call(self, {st['name']!r}, {d}, 'Mode')"]
    fam = cfg.get("family")
    if fam:
        L += ["", "class Mode2(Mode):", f"    MODE_NAME = {cfg['mode_name'] + ' v2'!r}"]
        for st in cfg["states"]:
            o = fam["over"].get(st["name"])
            if not o:
                continue
            first = st["name"] == cfg["first"]
            if st["kind"] == "timed":
                deco = f"@timed_state(duration={o.get('duration', st['duration'])!r}, next_state={o['next']!r}, first={first})"
            else:
                deco = f"@state(first={first})" if first else "@state"
            args = ", ".join(["self"] + o["sig"])
            d = "{" + ", ".join(f"{a!r}: {a}" for a in o["sig"]) + "}"
            L += [f"    {deco}", f"    def {st['name']}({args}):", f"        self._sim.call(self, {st['name']!r}, {d}, 'Mode2')"]
        if fam.get("extra"):
            x = fam["extra"]
            args = ", ".join(["self"] + x["sig"])
            d = "{" + ", ".join(f"{a!r}: {a}" for a in x["sig"]) + "}"
            L += [f"    @timed_state(duration={x['duration']!r}, next_state={x['next']!r})", f"    def sx({args}):",
                  f"        self._sim.call(self, 'sx', {d}, 'Mode2')"]
    return "\n".join(L) + "\n"


class SimStateFault(Exception):
    """raised by a generated state function on request of the plan"""


class _H:
    def __init__(self, world):
        self.world = world
        self.events = []
        self.act = None

    def call(self, inst, name, args, tag="Mode"):
        act, self.act = self.act, None
        self.events.append(("CALL", name, dict(args), list(act) if act else None, tag))
        if act:
            if act[0] == "next" and hasattr(type(inst), str(act[1])):
                inst.next_state(act[1])
            elif act[0] == "done":
                inst.done()
            if len(act) > 2 and act[2]:
                raise SimStateFault(name)

    def take(self):
        ev, self.events = self.events, []
        return ev


def _close(a, b, exact):
    return a == b if exact else abs(a - b) <= TOL


def execute(plan, trace=False):
    from simkit import world
    from robotpy_ext.autonomous import StatefulAutonomous, state, timed_state
    ntcore = world.ntcore
    cfg0, prop = plan["config"], plan["property"]
    exact = cfg0["dyadic"]
    world.goto(cfg0["boot_us"])
    clk = world.SimClock()
    src = build_source(cfg0)
    cfg = effective(cfg0)
    fam = cfg0.get("family")
    ns = {"StatefulAutonomous": StatefulAutonomous, "state": state, "timed_state": timed_state}
    exec(compile(src, "<generated mode>", "exec"), ns)
    H = _H(world)
    ns["Mode"]._sim = H
    Mode = ns[cfg["run_cls"]]
    Other = ns["Mode2" if cfg["run_cls"] == "Mode" else "Mode"] if fam else None
    others = []

    def make_other():
        # another class of the same family comes to life (e.g. the selector instantiates every mode)
        others.append(Other())
        for v in cfg["vars"]:
            if not v["prefix"]:
                model.dash[v["name"]] = v["default"] if isinstance(v["default"], (bool, str)) else float(v["default"])
    nt = ntcore.NetworkTableInstance.getDefault()
    sdef = {s["name"]: s for s in cfg["states"]}
    vdef = {v["name"]: v for v in cfg["vars"]}

    def topic(key):
        if key in vdef and not vdef[key]["prefix"]:
            return nt.getTopic("/SmartDashboard/" + key)
        return nt.getTopic(f"/SmartDashboard/{cfg['mode_name']}\\{key}")

    pubs, subs = {}, {}

    def pub(key, value):
        if key not in pubs:
            t = topic(key)
            if isinstance(value, bool):
                pubs[key] = ntcore.BooleanTopic(t).publish()
            elif isinstance(value, str):
                pubs[key] = ntcore.StringTopic(t).publish()
            else:
                pubs[key] = ntcore.DoubleTopic(t).publish()
        pubs[key].set(value)

    model = SAModel(cfg, exact=exact)
    if fam and fam["other_when"] == "before":
        make_other()
    comps_arg = {n: object() for n in cfg.get("ctor_comps", [])} or None
    inst = Mode(comps_arg) if comps_arg else Mode()
    model.construct()
    if fam and fam["other_when"] == "after":
        make_other()
    keys = [s["name"] + "_duration" for s in cfg["states"] if s["kind"] == "timed"] + [v["name"] for v in cfg["vars"]]
    for k in keys:
        subs[k] = topic(k).genericSubscribe()
    in_period, ever = False, False
    t_start = 0
    history, probes, faults = [], {}, {}
    states_seen, trans_seen, shape = set(), set(), []
    tr = [] if trace else None

    def probe(k, n=1):
        probes[k] = probes.get(k, 0) + n

    status, violation = "ok", None
    nper = 0
    try:
        for idx, op in enumerate(plan["ops"]):
            k = op[0]
            pre = model.abstract()
            exc = None
            obs = None
            mev = []
            try:
                if k == "adv":
                    world.advance(op[1])
                elif k == "nt":
                    if op[1] in model.dash and type(op[2]) is type(model.dash[op[1]]):
                        model.nt_write(op[1], op[2])
                        pub(op[1], op[2])
                        faults["dashboard_write_mid_period" if in_period else "dashboard_write_between_periods"] = faults.get("dashboard_write_mid_period" if in_period else "dashboard_write_between_periods", 0) + 1
                elif k == "newinst":
                    if not in_period:
                        model.construct()
                        inst = Mode(comps_arg) if comps_arg else Mode()
                        if fam and fam["other_when"] == "after":
                            make_other()
                        ever = False
                        faults["second_instance"] = faults.get("second_instance", 0) + 1
                elif k == "enable":
                    if not in_period:
                        model.on_enable()
                        t_start = world.now_us()
                        dash_seen = {kk: (subs[kk].get().value() if subs[kk].get().isValid() else None) for kk in keys}
                        inst.on_enable()
                        world.advance(op[1])
                        if op[1]:
                            faults["slow_on_enable"] = faults.get("slow_on_enable", 0) + 1
                        in_period, ever = True, True
                        nper += 1
                        obs = {"attrs": {kk: getattr(inst, kk, "<missing>") for kk in keys}, "dash": dash_seen}
                elif k == "iter":
                    if in_period:
                        tm = (world.now_us() - t_start) * 1e-6
                        act = op[1]
                        model.on_iteration(tm, act)
                        mev = model.take()
                        H.act = list(act) if act else None
                        try:
                            inst.on_iteration(tm)
                        except SimStateFault:
                            faults["state_function_raises"] = faults.get("state_function_raises", 0) + 1
                        obs = {"tm": tm}
                elif k == "disable":
                    if in_period:
                        inst.on_disable()
                        in_period = False
            except (Inconclusive, Violation):
                raise
            except Exception as e:
                exc = f"{type(e).__name__}: {e}"
            iev = H.take()
            history.append({"i": idx, "op": op, "ev": iev, "obs": obs})
            if tr is not None:
                tr.append(f"[{idx}] t={world.now_us()} op={op} model={mev} impl={iev} obs={obs}" + (f" EXC {exc}" if exc else ""))
            post = model.abstract()
            states_seen.add(util.h48(post))
            trans_seen.add(util.h48((pre, k, post)))
            if k == "iter":
                calls = [e for e in mev if e[0] == "CALL"]
                shape.append(("iter", tuple((sdef[e[1]]["kind"], e[4]) for e in calls), any(e[0] == "HANDOVER" for e in mev)))
                probe("iterations")
                if any(e[0] == "HANDOVER" for e in mev):
                    probe("expiry_handover")
                if not calls and in_period:
                    probe("idle_iteration_after_end")
                for e in calls:
                    if e[4]:
                        probe("entries")
                        if nper > 1:
                            probe("entries_in_later_period")
                    if e[4] and e[3] > 0:
                        probe("entry_with_state_tm_gt_0")
                if op[1] and op[1][0] == "next" and calls and op[1][1] == calls[0][1]:
                    probe("next_state_to_self")
            else:
                shape.append((k,))
            # ---- compare
            diff = None
            if exc is not None:
                diff = ("exception", f"raised {exc}")
            elif k == "iter":
                diff = _cmp_iter(sdef, mev, iev, exact)
            elif k == "enable" and obs is not None:
                for kk in keys:
                    want = model.frozen[kk]
                    got = obs["attrs"][kk]
                    if got != want or type(got) is not type(want):
                        diff = ("vars", f"after on_enable attribute {kk} = {got!r}, dashboard value is {want!r}")
                        break
            if diff is not None:
                raise Violation(prop, f"model.{diff[0]}", f"op {idx} {op}: {diff[1]}", sig=f"{prop}:model.{diff[0]}", at=idx)
        _invariants(prop, cfg, sdef, history, exact)
    except Inconclusive:
        status = "inconclusive"
    except Violation as v:
        status, violation = "violation", v.to_json()
    nontrivial = probes.get("entries_in_later_period", 0) > 0 or probes.get("entries", 0) > len(cfg["states"])
    res = {"status": status, "violation": violation, "probes": probes, "faults": faults, "shape": util.h48(shape),
           "digest": util.digest([[h["i"], h["ev"], h["obs"]] for h in history]), "sim_us": clk.covered(),
           "nontrivial": bool(nontrivial and status == "ok"), "states": sorted(states_seen), "trans": sorted(trans_seen)}
    if tr is not None:
        tr.insert(0, "generated mode:\n" + src)
        res["trace"] = tr
    return res


def _cmp_iter(sdef, mev, iev, exact):
    mc = [e for e in mev if e[0] == "CALL"]
    ic = [e for e in iev if e[0] == "CALL"]
    if [e[1] for e in mc] != [e[1] for e in ic]:
        return ("calls", f"expected state function(s) {[e[1] for e in mc]}, implementation ran {[e[1] for e in ic]}")
    for me, ie in zip(mc, ic):
        _, name, tm, stm, initial = me
        args = ie[2]
        if len(ie) > 4 and ie[4] != sdef[name].get("tag", "Mode"):
            return ("calls", f"{name}: the definition in class {ie[4]} ran, the running mode's own definition is in {sdef[name].get('tag', 'Mode')}")
        if set(args) != set(sdef[name]["sig"]):
            return ("args", f"{name} declared {sdef[name]['sig']} received {sorted(args)}")
        if "initial_call" in args and args["initial_call"] is not initial:
            return ("initial_call", f"{name}: initial_call expected {initial}, got {args['initial_call']!r}")
        if "tm" in args and not _close(args["tm"], tm, exact):
            return ("tm", f"{name}: tm expected {tm!r}, got {args['tm']!r}")
        if "state_tm" in args and not _close(args["state_tm"], stm, exact):
            return ("state_tm", f"{name}: state_tm expected {stm!r}, got {args['state_tm']!r}")
    return None


def _invariants(prop, cfg, sdef, history, exact):
    """Model-independent checks over the observed history."""
    tol = 0.0 if exact else TOL

    def fail(rule, h, msg):
        raise Violation(prop, f"inv.{rule}", f"op {h['i']} {h['op']}: {msg}", sig=f"{prop}:inv.{rule}", at=h["i"])

    in_period = False
    first_iter = False
    ended = False
    prev = None        # previous CALL in this period
    dash = {}
    stay = None
    for h in history:
        k = h["op"][0]
        if k == "enable" and h["obs"] is not None:
            in_period, first_iter, ended, prev, stay = True, True, False, None, None
            dash = h["obs"]["dash"]
        elif k == "disable":
            in_period = False
        elif k == "newinst":
            in_period = False
        elif k == "iter" and h["obs"] is not None:
            calls = [e for e in h["ev"] if e[0] == "CALL"]
            tm_now = h["obs"]["tm"]
            if len(calls) > 1:
                fail("two_states_in_one_iteration", h, f"{[c[1] for c in calls]}")
            if ended and calls:
                fail("ran_after_end", h, f"{calls[0][1]} ran after done()/the last state's expiry and before the next on_enable")
            if first_iter:
                first_iter = False
                if not calls or calls[0][1] != cfg["first"]:
                    fail("first_state", h, f"first iteration of the period ran {[c[1] for c in calls]}, expected {cfg['first']}")
                if "initial_call" in calls[0][2] and calls[0][2]["initial_call"] is not True:
                    fail("first_not_initial", h, "first state of the period did not get initial_call=True")
            if not calls:
                if not ended and prev is not None and stay is None and sdef[prev[1]]["kind"] == "plain" and prev[3] is None:
                    fail("untimed_state_dropped", h, f"untimed state {prev[1]} stopped running without next_state()/done()")
                ended = True
                continue
            c = calls[0]
            name, a, act = c[1], c[2], c[3]
            if "state_tm" in a and a["state_tm"] < -tol:
                fail("state_tm_negative", h, f"{name} received state_tm={a['state_tm']!r}")
            if "tm" in a and abs(a["tm"] - tm_now) > tol:
                fail("tm_passthrough", h, f"{name} received tm={a['tm']!r}, on_iteration was given {tm_now!r}")
            if prev is not None and prev[1] != name and "initial_call" in a and a["initial_call"] is not True:
                fail("entry_not_initial", h, f"{name} entered after {prev[1]} with initial_call={a['initial_call']!r}")
            if prev is not None and prev[3] is not None and prev[3][0] == "next" and prev[3][1] in sdef:
                if name != prev[3][1]:
                    fail("next_state_ignored", h, f"next_state({prev[3][1]!r}) was requested but {name} ran")
                if "initial_call" in a and a["initial_call"] is not True:
                    fail("entry_not_initial", h, f"{name} entered by next_state() with initial_call={a['initial_call']!r}")
            # timed stays (only when the previous call left a clean stay and the signatures expose the clocks)
            if stay is not None:
                lim = stay["s"] + stay["d"]
                band = (not exact) and abs(tm_now - lim) < 1e-7
                same = name == stay["state"] and a.get("initial_call") is False
                if same:
                    if tm_now > lim and not band:
                        fail("ran_past_expiry", h, f"{name} entered at {stay['s']!r} with duration {stay['d']!r} still ran at tm={tm_now!r}")
                elif "initial_call" in a and not band:
                    if not tm_now > lim:
                        fail("left_before_expiry", h, f"{stay['state']} (entered {stay['s']!r}, duration {stay['d']!r}) lost the floor at tm={tm_now!r}")
                    nxt = sdef[stay["state"]].get("next")
                    if name != nxt or a["initial_call"] is not True:
                        fail("wrong_successor", h, f"after {stay['state']} expired expected an initial call of {nxt}, got {name}")
                    if "state_tm" in a and abs((tm_now - a["state_tm"]) - lim) > tol:
                        fail("successor_clock", h, f"{name} clock starts at {tm_now - a['state_tm']!r}, expected the predecessor's expiry {lim!r}")
            # the stay that holds the floor now
            new_stay = None
            transition = act is not None and (act[0] == "done" or (act[0] == "next" and act[1] in sdef))
            if sdef[name]["kind"] == "timed" and not transition:
                if a.get("initial_call") is True and "state_tm" in a:
                    d = dash.get(name + "_duration")
                    if d is not None:
                        new_stay = {"state": name, "s": tm_now - a["state_tm"], "d": d}
                elif stay is not None and stay["state"] == name and a.get("initial_call") is False:
                    new_stay = stay
            stay = new_stay
            if act is not None and act[0] == "done":
                ended = True
            prev = c
