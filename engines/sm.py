"""Engine SM: a magicbot StateMachine / AutonomousStateMachine under a simulated
control loop (properties C01, C02, C03, C04, C13).

generate() is pure (stdlib random + the reference model).  execute() runs inside a
forked worker child against the real code on the paused HAL clock and a real local
ntcore instance.
"""
import itertools
import random

from simkit import util
from simkit.util import GRID_US, Inconclusive, Violation
from models.sm_model import SMModel
from models import sm_model
from models import sm_invariants

ENGINE = "sm"
PARAMS = ("tm", "state_tm", "initial_call")
ALL_SIGS = [list(p) for r in range(4) for p in itertools.permutations(PARAMS, r)]  # 16

OWNED = {
    "C01": {"calls", "exception"},
    "C02": {"calls", "tm", "state_tm", "initial_call", "exception"},
    "C03": {"tm", "state_tm", "initial_call", "exception"},
    "C04": {"calls", "done_at_stop", "is_executing", "current_state", "current_state_nt", "exception",
            "start_tm", "start_initial_call"},
    "C13": {"calls", "tm", "state_tm", "initial_call", "done_at_stop", "is_executing", "current_state",
            "current_state_nt", "exception", "start_tm", "start_initial_call"},
}


# =============================================================== generation

def _dur_choices(dyadic, rng, odd=False):
    if odd and rng.random() < 0.3:
        # legal but unusual: a negative duration (the state still runs once; its successor's clock starts at
        # s+d, before s) and NaN (never expires)
        r = rng.random()
        if r < 0.6:
            return -rng.choice([1, 8, 32]) / 64.0 if dyadic else -rng.choice([0.01, 0.25, 1.5])
        return float("nan")
    if dyadic:
        return rng.choice([0, 1, 1, 2, 2, 3, 4, 4, 8, 8, 16, 32, 64, 96, 128]) / 64.0
    return rng.choice([0.0, 0.01, 0.02, 0.05, 0.1, 0.25, 0.3, 0.5, 0.7, 1.0, 1.5, 2.0, round(rng.uniform(0, 3), 3)])


def gen_config(rng, prop, tier="quick"):
    asm = prop == "C13"
    dyadic = rng.random() < 0.55
    n = rng.choice([1, 2, 2, 3, 3, 3, 4, 4, 5, 6] if tier != "thorough" else [1, 2, 2, 3, 3, 4, 4, 5, 6, 7, 8])
    odd = rng.random() < 0.15
    p_timed = {"C02": 0.8, "C13": 0.65}.get(prop, 0.5)
    names = [f"s{i}" for i in range(n)]
    states = []
    for nm in names:
        kind = "timed" if rng.random() < p_timed else "plain"
        st = {"name": nm, "kind": kind, "must_finish": rng.random() < 0.25}
        if kind == "timed":
            d = _dur_choices(dyadic, rng, odd)
            if d == d and d == int(d) and rng.random() < 0.3:
                d = int(d)          # integer literal -> integer topic
            st["duration"] = d
            r = rng.random()
            st["next"] = None if r < 0.3 else rng.choice(names)
        states.append(st)
    first = rng.choice(names[:2]) if rng.random() < 0.7 else rng.choice(names)
    default = None
    if rng.random() < (0.15 if asm else 0.4):
        default = "dflt"
        states.append({"name": "dflt", "kind": "default", "must_finish": True})
    # signatures
    full_sig = prop == "C02"
    sig_pool = list(ALL_SIGS)
    rng.shuffle(sig_pool)
    for i, st in enumerate(states):
        if full_sig:
            st["sig"] = list(rng.choice(list(itertools.permutations(PARAMS, 3))))
        elif prop == "C03":
            st["sig"] = sig_pool[i % 16] if rng.random() < 0.7 else rng.choice(ALL_SIGS)
        else:
            st["sig"] = rng.choice(ALL_SIGS)
    # class layout
    layout = rng.choice(["single", "single", "base+leaf", "base+mix+leaf", "diamond"])
    classes = {"single": ["Leaf"], "base+leaf": ["Base", "Leaf"], "base+mix+leaf": ["Base", "Mix", "Leaf"],
               "diamond": ["Root", "Left", "Right", "Leaf"]}[layout]
    names_all = [x["name"] for x in states if x["kind"] != "default"]
    for st in states:
        st["cls"] = rng.choice(classes)
        st["base_sig"] = None
        st["base_over"] = None
        low, high = ("Root", "Right") if layout == "diamond" else ("Base", "Leaf")
        if len(classes) > 1 and st["cls"] == low and rng.random() < (0.5 if layout == "diamond" else 0.3):
            # same-kind redefinition further down; that version is the one that must run.  In the diamond the
            # redefinition sits in the base listed SECOND (Leaf(Left, Right)): Python's MRO still prefers it
            # over what Left merely inherits from Root.
            st["base_sig"] = rng.choice(ALL_SIGS)
            st["cls"] = high
            st["defined_in"] = [low, high]
            if st["kind"] != "default" and rng.random() < 0.6:
                # the overridden (dead) declaration differs in the flags that matter
                st["base_over"] = {"must_finish": not st["must_finish"],
                                   "next": (rng.choice(names_all + [None]) if st["kind"] == "timed" else None)}
        else:
            st["defined_in"] = [st["cls"]]
        st["next_by_obj"] = rng.random() < 0.3
    cfg = {
        "asm": asm, "dyadic": dyadic, "states": states, "first": first, "default": default,
        "classes": classes, "done_in": rng.choice(classes), "cname": rng.choice(["c0", "shooter", "Auto Mode"]) if asm else rng.choice(["c0", "shooter", "arm_ctl"]),
        "boot_us": (rng.choice([0, 1, 64, 640, 64000, 230400]) * GRID_US) if dyadic else rng.choice([0, 20000, 1234567, 3600 * 10**6 + 17]),
        "pre_nt": {},
        "layout": layout,
        "verbose": rng.random() < 0.25,               # VERBOSE_LOGGING on (the machine logs through self.logger)
        "base_first": len(classes) > 1 and rng.random() < 0.4,   # an object of the base class is created before the leaf's
        "odd_durations": odd,
    }
    for st in states:
        if st["kind"] == "timed" and rng.random() < 0.12:
            v = _dur_choices(dyadic, rng, odd)
            if isinstance(st["duration"], int) and v != v:
                v = 1
            cfg["pre_nt"][st["name"]] = int(v) if isinstance(st["duration"], int) else float(v)
    # positional-only parameters (def s(self, tm, /, state_tm)): the decorators accept them
    for st in states:
        if rng.random() < 0.12:
            st["posonly"] = rng.randint(0, len(st["sig"]))
    # the base class has its own first state, which the leaf redefines as an ordinary one (the leaf's first state
    # is another): what the base class looks like must not leak into the leaf
    if len(classes) > 1 and rng.random() < 0.35:
        low = "Root" if layout == "diamond" else "Base"
        fst = next(x for x in states if x["name"] == first)
        if low not in fst["defined_in"]:
            cands = [x["name"] for x in states if x["kind"] != "default" and x["defined_in"][0] == low and len(x["defined_in"]) == 2]
            if cands:
                cfg["first_in_base"] = rng.choice(cands)
    return cfg


def _mk_model(cfg, clock):
    durations = {}
    for st in cfg["states"]:
        if st["kind"] == "timed":
            durations[st["name"]] = cfg["pre_nt"].get(st["name"], st["duration"])
    return SMModel(cfg, durations, clock, exact=cfg["dyadic"], asm=cfg["asm"])


class _VClock:
    def __init__(self, us):
        self.us = us

    def __call__(self, stall=0):
        self.us += stall
        return self.us * 1e-6


def _gen_acts(rng, cfg, style):
    names = [s["name"] for s in cfg["states"] if s["kind"] != "default"]
    acts = []
    for _ in range(4):
        r = rng.random()
        stall = 0
        if rng.random() < style["p_stall"]:
            stall = (rng.choice([1, 2, 8]) * GRID_US) if cfg["dyadic"] else rng.choice([500, 3000, 25000])
        if r < style["p_next"]:
            acts.append(["next", rng.choice(names), stall, rng.random() < 0.3])
        elif r < style["p_next"] + style["p_now"]:
            acts.append(["now", rng.choice(names), stall, rng.random() < 0.3])
        elif r < style["p_next"] + style["p_now"] + style["p_done"]:
            acts.append(["done", None, stall, False])
        else:
            acts.append([None, None, stall, False] if stall else None)
    if style.get("p_seq"):
        # two actions in the same call of the state function.  Plain machines: transitions only (what a
        # transition requested after done() in the same call means is not something the properties say);
        # autonomous machines: any two.
        kinds = ["next", "now", "done"] if cfg["asm"] else ["next", "now"]
        for i, a in enumerate(acts):
            if rng.random() < style["p_seq"]:
                subs = [[k1, None if k1 == "done" else rng.choice(names), rng.random() < 0.3]
                        for k1 in (rng.choice(kinds), rng.choice(kinds))]
                acts[i] = ["seq", subs, a[2] if a else 0, False]
    if style.get("p_raise"):
        # fault: the state function raises after doing whatever it does (the caller swallows it and re-engages)
        for i, a in enumerate(acts):
            if rng.random() < style["p_raise"]:
                acts[i] = (list(a) if a else [None, None, 0, False]) + [True]
    while acts and acts[-1] is None:
        acts.pop()
    return acts


def _model_acts(acts):
    return [None if a is None else
            (a[0], [(x[0], x[1]) for x in a[1]] if a[0] == "seq" else a[1], a[2], len(a) > 4 and bool(a[4])) for a in acts]


class SimStateFault(Exception):
    """raised by a generated state function on request of the plan"""


REENGAGE = ["engage", None, False, False]


def _pick_dt(rng, cfg, style, model, now_us):
    """Clock advance before the next iteration; often aimed at the expiry of the current stay."""
    dy = cfg["dyadic"]
    if model.cur is not None and not model.fresh and model.expires is not None and model.expires < 1e8 \
            and rng.random() < style["p_aim"]:
        exp_abs_us = round((model.start + model.expires) * 1e6)
        delta = exp_abs_us - now_us
        if dy:
            delta += rng.choice([0, 0, 0, -GRID_US, GRID_US, GRID_US])
        else:
            delta += rng.choice([-1, 1, 1, -20, 20, 2])
        if delta > 0:
            return int(delta)
    r = rng.random()
    if r < style["p_pause"]:
        if style.get("days") and rng.random() < 0.3:
            return (2 ** 24 * GRID_US) if dy else rng.choice([3 * 86400 * 10**6, 30 * 86400 * 10**6 + 7])
        return (rng.choice([64, 128, 200, 640]) * GRID_US) if dy else rng.choice([700000, 2500000, 10**7])
    if r < style["p_pause"] + style["p_zero"]:
        return 0
    if dy:
        return rng.choice(style["steps"]) * GRID_US
    base = style["period_us"]
    return max(1, base + rng.randint(-style["jitter_us"], style["jitter_us"]))


def generate(seed, prop, tier, index=0):
    if index % 6 == 5:
        # secondary driver: the machine lives inside a real MagicRobot (engine ROBOT executes the plan)
        from engines import robot
        return robot.generate_integration(seed, prop, tier, index)
    rng = random.Random(seed)
    cfg = gen_config(rng, prop, tier)
    clock = _VClock(cfg["boot_us"])
    model = _mk_model(cfg, clock)
    n_iter = rng.choice([6, 10, 16, 24, 40, 60] if tier == "quick" else [6, 12, 24, 40, 80, 110, 200])
    style = {
        "p_engage": rng.choice([1.0, 1.0, 0.9, 0.7, 0.5, 0.2]),
        "p_burst": rng.choice([0.0, 0.6, 0.9]),
        "p_next": rng.choice([0.0, 0.05, 0.15, 0.3]),
        "p_now": rng.choice([0.0, 0.0, 0.05, 0.15]),
        "p_done": rng.choice([0.0, 0.02, 0.08]),
        "p_stall": rng.choice([0.0, 0.0, 0.05]),
        "p_ctl": rng.choice([0.0, 0.03, 0.1]),
        "p_nt": rng.choice([0.0, 0.0, 0.05, 0.15]),
        "p_restart": rng.choice([0.0, 0.0, 0.0, 0.02]),
        "p_aim": rng.choice([0.0, 0.3, 0.6]),
        "p_pause": rng.choice([0.0, 0.03, 0.1]),
        "p_zero": rng.choice([0.0, 0.0, 0.05]),
        "steps": rng.choice([[1], [2], [1, 2], [1, 1, 2, 3], [4], [1, 16]]),
        "period_us": rng.choice([20000, 20000, 10000, 5000, 50000]),
        "jitter_us": rng.choice([0, 50, 2000, 9000]),
        "p_init": rng.choice([0.0, 0.1, 0.3]),
        "p_force": rng.choice([0.0, 0.0, 0.05, 0.2]),
        "p_raise": rng.choice([0.0, 0.0, 0.0, 0.03, 0.1]),
        "p_seq": rng.choice([0.0, 0.0, 0.0, 0.05, 0.2]),
        "days": rng.random() < 0.15,      # some pauses last days: machine time far from zero
    }
    if prop == "C02":
        style["p_engage"] = rng.choice([1.0, 1.0, 1.0, 0.9])
        style["p_aim"] = rng.choice([0.3, 0.6, 0.8])
    names = [s["name"] for s in cfg["states"] if s["kind"] != "default"]
    timed = [s for s in cfg["states"] if s["kind"] == "timed"]
    ops = []
    engaged_prev = rng.random() < 0.5
    # a second live machine of the same class, driven by its own history between the first one's ops
    twin = rng.random() < 0.2
    cfg["twin"] = twin
    model_b = _mk_model(dict(cfg, pre_nt={}), clock) if twin else None

    def emit(op):
        ops.append(op)
        try:
            if _apply_model(model, clock, cfg, op) and op[0] == "exec":
                _apply_model(model, clock, cfg, REENGAGE)       # what the executor does after a raising iteration
        except Inconclusive:
            pass
        model.take()

    def emit_b(op):
        ops.append(["@", op])
        try:
            if _apply_model(model_b, clock, cfg, op) and op[0] == "exec":
                _apply_model(model_b, clock, cfg, REENGAGE)
        except Inconclusive:
            pass
        model_b.take()

    if cfg["asm"]:
        emit(["enable"])
        for _ in range(n_iter):
            r = rng.random()
            if r < style["p_ctl"]:
                emit(rng.choice([["disable"], ["disable"], ["done"], ["enable"]]) if not model.asm_engaged or rng.random() < 0.6 else ["disable"])
                if ops[-1][0] == "disable" and rng.random() < 0.7:
                    emit(["enable"])
            elif not model.asm_engaged and rng.random() < 0.25:
                if rng.random() < 0.5:
                    emit(["disable"])
                emit(["enable"])
            if timed and rng.random() < style["p_nt"]:
                emit(_gen_ntdur(rng, cfg, timed))
            if rng.random() < style["p_restart"]:
                emit(["restart"])
                emit(["enable"])
            if rng.random() < 0.02:
                emit(["ntcs", rng.choice(names + ["", "bogus"])])
            emit(["iter", _gen_acts(rng, cfg, style)])
            if twin:
                # a second live autonomous machine of the same class with its own protocol history
                if not model_b.asm_engaged and rng.random() < 0.5:
                    if model_b.ever_enabled:
                        emit_b(["disable"])
                    emit_b(["enable"])
                elif rng.random() < 0.06:
                    emit_b(["disable"])
                emit_b(["iter", _gen_acts(rng, cfg, style)])
            emit(["adv", _pick_dt(rng, cfg, style, model_b if twin and rng.random() < 0.4 else model, clock.us)])
        return {"engine": ENGINE, "property": prop, "seed": seed, "config": cfg, "ops": _sanitize_asm(ops)}

    for _ in range(n_iter):
        if timed and rng.random() < style["p_nt"]:
            emit(_gen_ntdur(rng, cfg, timed))
        if rng.random() < style["p_restart"]:
            emit(["restart"])
        # engagement pattern (independent or bursty)
        if rng.random() < style["p_burst"]:
            eng = engaged_prev if rng.random() < 0.85 else not engaged_prev
        else:
            eng = rng.random() < style["p_engage"]
        engaged_prev = eng
        if rng.random() < style["p_ctl"]:
            emit(rng.choice([["done"], ["disable"]]))
        if eng:
            init = rng.choice(names) if rng.random() < style["p_init"] else None
            emit(["engage", init, rng.random() < style["p_force"], rng.random() < 0.3])
            if rng.random() < style["p_ctl"] * 0.5:
                emit(rng.choice([["done"], ["disable"]]))
                if rng.random() < 0.5:
                    emit(["engage", None, False, False])
        if rng.random() < 0.02:
            emit(["ntcs", rng.choice(names + ["", "bogus"])])
        b_engages_first = twin and rng.random() < 0.5      # the robot's order: every engage() first, then every execute()
        if b_engages_first and rng.random() < 0.7:
            emit_b(["engage", None, False, False])
        emit(["exec", _gen_acts(rng, cfg, style)])
        if twin:
            if not b_engages_first and rng.random() < 0.7:
                emit_b(["engage", None, False, False])
            if rng.random() < 0.1:
                emit_b(rng.choice([["done"], ["disable"]]))
            if timed and rng.random() < 0.05:
                emit_b(_gen_ntdur(rng, cfg, timed))
            emit_b(["exec", _gen_acts(rng, cfg, style)])
        emit(["adv", _pick_dt(rng, cfg, style, model_b if twin and rng.random() < 0.4 else model, clock.us)])
    return {"engine": ENGINE, "property": prop, "seed": seed, "config": cfg, "ops": ops}


def _sanitize_asm(ops):
    """The autonomous protocol the selector guarantees: never on_enable twice without on_disable (per machine)."""
    out, enabled = [], {0: False, 1: False}
    for op0 in ops:
        k, op = (1, op0[1]) if op0[0] == "@" else (0, op0)
        if op[0] == "enable":
            if enabled[k]:
                out.append(["disable"] if k == 0 else ["@", ["disable"]])
            enabled[k] = True
        elif op[0] == "disable":
            enabled[k] = False
        elif op[0] == "restart":
            enabled[k] = False
        out.append(op0)
    return out


def _gen_ntdur(rng, cfg, timed):
    st = rng.choice(timed)
    v = _dur_choices(cfg["dyadic"], rng, cfg.get("odd_durations"))
    if isinstance(st["duration"], int) and v != v:
        v = 2
    return ["ntdur", st["name"], int(v) if isinstance(st["duration"], int) else float(v)]


def _apply_model(model, clock, cfg, op):
    """Returns True when a state function raised (injected) during this op."""
    try:
        _apply_model_(model, clock, cfg, op)
    except sm_model.StateRaised:
        return True
    return False


def _apply_model_(model, clock, cfg, op):
    k = op[0]
    if k == "adv":
        clock(op[1])
    elif k == "engage":
        init = op[1] if op[1] in model.states and model.states[op[1]]["kind"] != "default" else None
        model.engage(init, bool(op[2]))
    elif k == "done":
        model.done()
    elif k == "disable":
        model.on_disable()
    elif k == "exec":
        if not cfg["asm"]:
            model.execute(_model_acts(op[1]))
    elif k == "enable":
        if cfg["asm"]:
            model.on_enable()
    elif k == "iter":
        if cfg["asm"] and model.ever_enabled:
            model.on_iteration(_model_acts(op[1]))
    elif k == "ntdur":
        if op[1] in model.dur:
            model.dur[op[1]] = op[2]
    elif k == "ntcs":
        model.cs = op[1]          # the topic shows what the dashboard wrote until the machine writes it again
    elif k == "restart":
        model.restart()


# =============================================================== world builder (child only)

def build_source(cfg):
    base = "AutonomousStateMachine" if cfg["asm"] else "StateMachine"
    by_cls = {c: [] for c in cfg["classes"]}
    for st in cfg["states"]:
        for c in st["defined_in"]:
            by_cls[c].append(st)
    lines = []
    has = set(cfg["classes"])
    parents_of = {"Root": [base], "Left": ["Root"], "Right": ["Root"], "Base": [base], "Mix": ["StateMachine"]}
    if "Root" in has:
        parents_of["Leaf"] = ["Left", "Right"]
    else:
        parents_of["Leaf"] = [p for p in ("Mix", "Base") if p in has] + ([] if "Base" in has else [base])
    for c in cfg["classes"]:
        hdr = f"class {c}({', '.join(parents_of[c])}):"
        lines.append(hdr)
        if c == "Leaf" and cfg["asm"]:
            lines.append(f"    MODE_NAME = {cfg['cname']!r}")
        if c == "Leaf" and cfg.get("verbose") and not cfg["asm"]:
            lines.append("    VERBOSE_LOGGING = True")
        defined = set()
        for st in by_cls[c]:
            nm = st["name"]
            live = c == st["cls"]
            sig = st["sig"] if live else st["base_sig"]
            is_first = nm == cfg["first"] or (not live and nm == cfg.get("first_in_base"))
            if not live and st.get("base_over"):
                st = dict(st, must_finish=st["base_over"]["must_finish"], next=st["base_over"]["next"])
            if st["kind"] == "timed":
                nxt = st.get("next")
                if nxt is None:
                    nx = "None"
                elif st["next_by_obj"] and nxt in defined:
                    nx = nxt
                else:
                    nx = repr(nxt)
                dlit = repr(st["duration"]) if st["duration"] == st["duration"] else "float('nan')"
                deco = f"@timed_state(duration={dlit}, next_state={nx}, first={is_first}, must_finish={bool(st['must_finish'])})"
            elif st["kind"] == "default":
                deco = "@default_state"
            else:
                if not is_first and not st["must_finish"]:
                    deco = "@state"
                else:
                    deco = f"@state(first={is_first}, must_finish={bool(st['must_finish'])})"
            params = ["self"] + list(sig)
            if live and st.get("posonly") is not None:
                params.insert(1 + min(st["posonly"], len(sig)), "/")
            args = ", ".join(params)
            d = "{" + ", ".join(f"{a!r}: {a}" for a in sig) + "}"
            lines.append(f"    {deco}")
            lines.append(f"    def {nm}({args}):")
            lines.append(f"        self._sim.call(self, {nm!r}, {c!r}, {d})")
            defined.add(nm)
        if c == cfg["done_in"]:
            lines.append("    def done(self):")
            lines.append("        self._sim.done_called(self)")
            lines.append("        super().done()")
        if not by_cls[c] and c != cfg["done_in"] and not (c == "Leaf" and (cfg["asm"] or cfg.get("verbose"))):
            lines.append("    pass")
        lines.append("")
    return "\n".join(lines)


class _Harness:
    """Everything the generated state functions talk to."""

    def __init__(self, world):
        self.world = world
        self.events = []
        self.acts = []
        self.ctx_of = {}
        self.default_name = None
        self.asm = False

    def call(self, inst, name, cls, args):
        c = self.ctx_of.get(id(inst))
        sub = c.dsubs.get(name) if c is not None else None
        act = self.acts.pop(0) if self.acts else None
        if name == self.default_name:
            act = None      # default states perform no in-state action (outside the properties' quantifier)
        self.events.append(("CALL", name, cls, dict(args), self.world.now_us(), sub.get() if sub is not None else None,
                            list(act) if act else None))
        if act:
            a, target, stall, byobj = act[:4]
            if stall:
                self.world.advance(stall)
            for n1, (a1, t1, byobj1) in enumerate(target if a == "seq" else [(a, target, byobj)]):
                if n1 and not self.asm and not inst.is_executing:
                    break       # a state function of a plain machine does nothing more once its machine stopped
                if a1 in ("next", "now") and hasattr(type(inst), str(t1)):
                    ref = getattr(type(inst), t1) if byobj1 else t1
                    if a1 == "next":
                        inst.next_state(ref)
                    else:
                        inst.next_state_now(ref)
                elif a1 == "done":
                    inst.done()
            if len(act) > 4 and act[4]:
                raise SimStateFault(name)

    def done_called(self, inst):
        self.events.append(("DONE",))

    def take(self):
        ev, self.events = self.events, []
        return ev


def _close(a, b, exact):
    if exact:
        return a == b
    return abs(a - b) <= 1e-9


def execute(plan, trace=False):
    from simkit import world
    import logging
    import magicbot
    from magicbot.magic_tunable import setup_tunables
    ntcore = world.ntcore

    cfg = plan["config"]
    prop = plan["property"]
    owned = OWNED[prop]
    exact = cfg["dyadic"]
    tr = [] if trace else None

    world.goto(cfg["boot_us"])
    if world.now_us() != cfg["boot_us"]:
        return {"status": "error", "error": "clock not at boot offset"}
    clk = world.SimClock()
    src = build_source(cfg)
    ns = {"StateMachine": magicbot.StateMachine, "AutonomousStateMachine": magicbot.AutonomousStateMachine,
          "state": magicbot.state, "timed_state": magicbot.timed_state, "default_state": magicbot.default_state}
    exec(compile(src, "<generated machine>", "exec"), ns)
    Leaf = ns["Leaf"]
    H = _Harness(world)
    Leaf._sim = H
    H.default_name = cfg.get("default")
    H.asm = bool(cfg["asm"])
    prefix = "autonomous" if cfg["asm"] else "components"
    nt = ntcore.NetworkTableInstance.getDefault()
    sdef = {s["name"]: s for s in cfg["states"]}
    vclock = _VClock(cfg["boot_us"])

    class Ctx:
        """one live machine: the implementation object, its reference model, its NetworkTables handles"""

    def make_ctx(k):
        c = Ctx()
        c.k = k
        c.cname = cfg["cname"] if k == 0 else cfg["cname"] + "_b"
        base_key = f"/{prefix}/{c.cname}/state"
        c.pubs, c.dsubs = {}, {}
        for st in cfg["states"]:
            if st["kind"] == "timed":
                t = nt.getTopic(f"{base_key}/{st['name']}_duration")
                typ = ntcore.IntegerTopic if isinstance(st["duration"], int) else ntcore.DoubleTopic
                c.pubs[st["name"]] = typ(t).publish()
                c.dsubs[st["name"]] = typ(t).subscribe(-1)
        if k == 0:
            for nm, v in cfg["pre_nt"].items():
                if nm in c.pubs:
                    c.pubs[nm].set(v)
        c.cs_sub = ntcore.StringTopic(nt.getTopic(f"{base_key}/current_state")).subscribe("<unset>")
        c.cs_pub = ntcore.StringTopic(nt.getTopic(f"{base_key}/current_state")).publish()
        c.model = _mk_model(cfg if k == 0 else dict(cfg, pre_nt={}), vclock)
        c.asm_enabled_once = False
        c.cs_loose = False
        c.history = []
        c.inst = None
        return c

    def new_instance(c):
        c.inst = Leaf()
        c.inst.logger = logging.getLogger(c.cname)
        setup_tunables(c.inst, c.cname, prefix)
        H.ctx_of[id(c.inst)] = c

    probes = {}
    faults = {}
    states_seen, trans_seen, shape = set(), set(), []

    def probe(k, n=1):
        probes[k] = probes.get(k, 0) + n

    def fault(k, n=1):
        faults[k] = faults.get(k, 0) + n

    keep_alive = []
    if cfg.get("base_first"):
        # an object of the (concrete) base class exists before the first object of the leaf class
        for bn in ("Base", "Root", "Right"):
            B = ns.get(bn)
            if B is not None:
                try:
                    b = B()
                    b.logger = logging.getLogger("basefirst")
                    setup_tunables(b, "basefirst_" + bn.lower(), prefix)
                    keep_alive.append(b)
                    fault("base_class_instantiated_first")
                except Exception:
                    pass        # not instantiable on its own (no first state there): nothing to do
    ctxs = [make_ctx(0)] + ([make_ctx(1)] if cfg.get("twin") else [])
    for c in ctxs:
        new_instance(c)

    def observe(c):
        return (bool(c.inst.is_executing), c.inst.current_state, c.cs_sub.get())

    status, violation = "ok", None
    foreign = None
    digest_log = []
    try:
        todo = [(i, o) for i, o in enumerate(plan["ops"])]
        pos = -1
        for idx, op0 in todo:
            pos += 1
            op, c = op0, ctxs[0]
            if op0[0] == "@":
                if len(ctxs) < 2:
                    continue
                op, c = op0[1], ctxs[1]
                probe("twin_ops")
            k = op[0]
            model, inst = c.model, c.inst
            pre_abs = model.abstract()
            pre_running = model.executing or (model.cur is not None and model.cur != model.default)
            # ---- model
            m_raised = _apply_model(model, vclock, cfg, op)
            mev = model.take()
            i_raised = False
            # ---- implementation
            exc = None
            t0 = world.now_us()
            H.acts = [a for a in (op[1] if k in ("exec", "iter") else [])]
            H.acts = [a if a is None else list(a) for a in H.acts]
            try:
                if k == "adv":
                    world.advance(op[1])
                elif k == "engage":
                    init = op[1] if op[1] in sdef and sdef[op[1]]["kind"] != "default" else None
                    if init is not None and len(op) > 3 and op[3]:
                        init = getattr(Leaf, init)
                    if init is None and not op[2]:
                        inst.engage()
                    else:
                        inst.engage(initial_state=init, force=bool(op[2]))
                elif k == "done":
                    inst.done()
                elif k == "disable":
                    inst.on_disable()
                elif k == "exec":
                    if not cfg["asm"]:
                        try:
                            inst.execute()
                        except SimStateFault:
                            i_raised = True
                elif k == "enable":
                    if cfg["asm"]:
                        inst.on_enable()
                        c.asm_enabled_once = True
                elif k == "iter":
                    if cfg["asm"] and c.asm_enabled_once:
                        try:
                            inst.on_iteration(world.now_us() * 1e-6)
                        except SimStateFault:
                            i_raised = True
                elif k == "ntdur":
                    if op[1] in c.pubs:
                        c.pubs[op[1]].set(op[2])
                        fault("nt_duration_write")
                elif k == "ntcs":
                    c.cs_pub.set(op[1])
                    fault("dashboard_scribbles_on_current_state")
                elif k == "restart":
                    new_instance(c)
                    inst = c.inst
                    c.asm_enabled_once = False
                    fault("restart_nt_survives")
            except Violation:
                raise
            except Exception as e:  # raised by the code under test
                exc = f"{type(e).__name__}: {e}"
            iev = H.take()
            if m_raised or i_raised:
                fault("state_function_raises")
                if k == "exec":
                    # the caller swallows the exception and asks again before the next iteration (whether an
                    # abandoned iteration consumed the previous request is not something the properties say)
                    todo.insert(pos + 1, (idx, ["@", REENGAGE] if op0[0] == "@" else REENGAGE))
            i_after = None
            if exc is None:
                try:
                    i_after = observe(c)
                except Exception as e:
                    exc = f"{type(e).__name__}: {e}"
            m_after = (model.executing, model.cs)
            c.history.append({"i": idx, "op": op, "t0": t0, "t": world.now_us(), "ev": iev, "after": i_after, "mev": mev,
                              "raised": i_raised})
            digest_log.append([idx, c.k, world.now_us(), iev, i_after])
            if tr is not None:
                tr.append(f"[{idx}] t={world.now_us()}us {'machine B ' if c.k else ''}op={op}  model={mev} -> {m_after}   impl={iev} -> {i_after}" + (f"  EXC {exc}" if exc else ""))
            # ---- coverage accounting
            post_abs = model.abstract()
            states_seen.add(util.h48(post_abs))
            trans_seen.add(util.h48((pre_abs, k, post_abs)))
            if k in ("exec", "iter"):
                shape.append((c.k, k, tuple((sdef[e[1]]["kind"], bool(sdef[e[1]].get("must_finish")), e[4]) for e in mev if e[0] == "CALL"),
                              any(e[0] == "DONE" for e in mev)))
            else:
                shape.append((c.k, k))
            _probes(probe, fault, k, op, mev, model, pre_abs, pre_running)
            # ---- compare
            if model.loose and not c.cs_loose:
                probe("transition_after_stop_in_one_call")
            c.cs_loose = model.loose
            if c.cs_loose and i_after is not None:
                i_after = (i_after[0], m_after[1], m_after[1])
            if vclock.us != world.now_us() and exc is None and _calls_equal(mev, iev) and foreign is None:
                return {"status": "error", "error": f"virtual clock {vclock.us} != HAL clock {world.now_us()} at op {idx}"}
            diff = _compare(cfg, sdef, k, mev, iev, m_after, i_after, exc, exact, pre_running)
            if diff is None and len(ctxs) == 2 and k != "adv":
                # the other live machine must not have been touched
                o = ctxs[1 - c.k]
                try:
                    got = observe(o)
                except Exception as e:
                    got = f"{type(e).__name__}: {e}"
                want = (o.model.executing, o.model.cs, o.model.cs)
                if o.cs_loose and isinstance(got, tuple):
                    got = (got[0],) + want[1:]
                if got != want:
                    kind = "is_executing" if not isinstance(got, tuple) or got[0] != want[0] else "current_state" if got[1] != want[1] else "current_state_nt"
                    diff = (kind, f"the other live machine ({o.cname}) now reports (is_executing, current_state, NT current_state) = {got}, expected {want}: machines interfere")
            if diff is not None:
                kind, msg = diff
                if kind in owned:
                    raise Violation(prop, f"model.{kind}", f"op {idx} {op0}: {msg}", sig=f"{prop}:model.{kind}", at=idx)
                # a deviation outside this property's projection: note it and keep going - the property is
                # quantified over all histories, so what follows must still satisfy it
                if foreign is None:
                    foreign = kind
                    probe("foreign_divergence_" + kind)
                if kind == "exception":
                    break
        # ---- independent invariants over the recorded history (per machine)
        for c in ctxs:
            sm_invariants.check(prop, cfg, c.history, exact)
    except Inconclusive:
        status = "inconclusive"
    except Violation as v:
        status, violation = "violation", v.to_json()
    nontrivial = _nontrivial(prop, probes)
    res = {"status": status, "violation": violation, "probes": probes, "faults": faults,
           "shape": util.h48(shape), "digest": util.digest(digest_log),
           "sim_us": clk.covered(), "nontrivial": nontrivial and status == "ok",
           "states": sorted(states_seen), "trans": sorted(trans_seen)}
    if tr is not None:
        tr.insert(0, "generated machine:\n" + src)
        res["trace"] = tr
    return res


def _calls_equal(mev, iev):
    return [e[1] for e in mev if e[0] == "CALL"] == [e[1] for e in iev if e[0] == "CALL"]


def _probes(probe, fault, k, op, mev, model, pre_abs, pre_running):
    calls = [e for e in mev if e[0] == "CALL"]
    if k in ("exec", "iter"):
        probe("iterations")
        if any(e[0] == "HANDOVER" for e in mev):
            probe("expiry_handover")
        if any(e[0] == "RESTART" for e in mev):
            probe("cycle_restart")
        if len(calls) > 1:
            probe("next_state_now_nested")
        if not pre_abs[3] and pre_abs[2]:
            probe("iteration_without_engage_while_executing")
            if calls and calls[0][1] != model.default:
                probe("must_finish_continues_without_engage")
        if any(e[0] == "DONE" for e in mev) and pre_running:
            probe("stop_inside_iteration")
        for e in calls:
            if e[4]:
                probe("entries")
                if e[3] > 0:
                    probe("entry_with_state_tm_gt_0")
            else:
                probe("repeat_calls")
            if e[1] == model.default:
                probe("default_state_ran")
            if e[6] and e is calls[0]:
                probe("machine_started")
        if op[1]:
            for a in op[1]:
                if a and a[2]:
                    fault("slow_state_function")
    elif k == "engage":
        if op[2]:
            fault("forced_reengage")
        if op[1]:
            probe("engage_initial_state")
        if pre_abs[2]:
            probe("engage_while_executing")
    elif k in ("done", "disable"):
        if pre_running:
            fault("external_stop_while_running")
    elif k == "adv":
        if op[1] >= 600000:
            fault("long_pause")
        if op[1] >= 86400 * 10**6:
            fault("pause_of_days")
        if op[1] == 0:
            fault("zero_advance")
    if k == "enable" and not pre_abs[2]:
        probe("on_enable")


def _nontrivial(prop, p):
    if prop == "C01":
        return p.get("iteration_without_engage_while_executing", 0) > 0
    if prop == "C02":
        return p.get("expiry_handover", 0) + p.get("cycle_restart", 0) > 0
    if prop == "C03":
        return p.get("entries", 0) >= 2 and p.get("repeat_calls", 0) >= 1
    if prop == "C04":
        return p.get("stop_inside_iteration", 0) + p.get("external_stop_while_running", 0) > 0 and p.get("machine_started", 0) >= 2
    if prop == "C13":
        return p.get("stop_inside_iteration", 0) + p.get("external_stop_while_running", 0) > 0 and p.get("iterations", 0) > 2
    return True


def _compare(cfg, sdef, k, mev, iev, m_after, i_after, exc, exact, pre_running):
    if exc is not None:
        return ("exception", f"the machine raised {exc}")
    mcalls = [e for e in mev if e[0] == "CALL"]
    icalls = [e for e in iev if e[0] == "CALL"]
    mn = [e[1] for e in mcalls]
    inn = [e[1] for e in icalls]
    if mn != inn:
        return ("calls", f"state functions run in this iteration: expected {mn}, implementation ran {inn}")
    for me, ie in zip(mcalls, icalls):
        _, name, tm, state_tm, initial, in_eng, started = me
        _, _, cls, args, t_us, _dur, _act = ie
        st = sdef[name]
        if cls != st["cls"]:
            return ("calls", f"state {name}: the overridden version defined in {cls} ran instead of {st['cls']}")
        at_start = started and me is mcalls[0]
        if set(args) != set(st["sig"]):
            return ("initial_call", f"state {name} declared {st['sig']} but received {sorted(args)}")
        if "initial_call" in args and args["initial_call"] is not initial:
            return ("start_initial_call" if at_start else "initial_call",
                    f"state {name}: initial_call expected {initial}, got {args['initial_call']!r}")
        if "state_tm" in args and not (isinstance(args["state_tm"], (int, float)) and not isinstance(args["state_tm"], bool) and _close(args["state_tm"], state_tm, exact)):
            return ("state_tm", f"state {name}: state_tm expected {state_tm!r}, got {args['state_tm']!r}")
        if "tm" in args and in_eng and not (isinstance(args["tm"], (int, float)) and not isinstance(args["tm"], bool) and _close(args["tm"], tm, exact)):
            return ("start_tm" if at_start else "tm", f"state {name}: tm expected {tm!r}, got {args['tm']!r}")
    m_done = any(e[0] == "DONE" for e in mev)
    i_done = any(e[0] == "DONE" for e in iev)
    if m_done and pre_running and not i_done:
        return ("done_at_stop", "the machine stopped running regular states in this step but done() was not invoked")
    if k in ("exec", "iter", "done", "disable", "restart", "ntcs"):
        if i_after[0] != m_after[0]:
            return ("is_executing", f"is_executing expected {m_after[0]}, got {i_after[0]}")
        if i_after[1] != m_after[1]:
            return ("current_state", f"current_state expected {m_after[1]!r}, got {i_after[1]!r}")
        if i_after[2] != m_after[1]:
            return ("current_state_nt", f"NetworkTables current_state expected {m_after[1]!r}, got {i_after[2]!r}")
    return None


# =============================================================== minimisation helpers

def simplify(plan):
    """Structural / argument shrinking candidates (each is a complete plan)."""
    cfg = plan["config"]
    ops = plan["ops"]
    # drop actions inside iterations
    for i, op in enumerate(ops):
        if op[0] in ("exec", "iter") and op[1]:
            yield dict(plan, ops=ops[:i] + [[op[0], []]] + ops[i + 1:])
            for j, a in enumerate(op[1]):
                if a is not None:
                    na = list(op[1])
                    na[j] = None
                    yield dict(plan, ops=ops[:i] + [[op[0], na]] + ops[i + 1:])
                    if a[2]:
                        na = list(op[1])
                        na[j] = [a[0], a[1], 0] + list(a[3:])
                        yield dict(plan, ops=ops[:i] + [[op[0], na]] + ops[i + 1:])
                    if a[0] == "seq":
                        for x in a[1]:
                            na = list(op[1])
                            na[j] = [x[0], x[1], a[2], x[2]] + list(a[4:])
                            yield dict(plan, ops=ops[:i] + [[op[0], na]] + ops[i + 1:])
                    if len(a) > 4 and a[4]:
                        na = list(op[1])
                        na[j] = list(a[:4])
                        yield dict(plan, ops=ops[:i] + [[op[0], na]] + ops[i + 1:])
        if op[0] == "engage" and (op[1] or op[2]):
            yield dict(plan, ops=ops[:i] + [["engage", None, False, False]] + ops[i + 1:])
    # merge consecutive advances
    for i in range(len(ops) - 1):
        if ops[i][0] == "adv" and ops[i + 1][0] == "adv":
            yield dict(plan, ops=ops[:i] + [["adv", ops[i][1] + ops[i + 1][1]]] + ops[i + 2:])
    # simpler configuration
    used = set()
    for op in ops:
        if op[0] in ("exec", "iter"):
            for a in op[1] or []:
                if a and a[0] == "seq":
                    used.update(x[1] for x in a[1] if x[1])
                elif a and a[1]:
                    used.add(a[1])
        if op[0] == "engage" and op[1]:
            used.add(op[1])
        if op[0] == "ntdur":
            used.add(op[1])
    for s in cfg["states"]:
        nm = s["name"]
        if nm != cfg["first"] and nm not in used and s["kind"] != "default" and not any(t.get("next") == nm for t in cfg["states"]):
            c2 = dict(cfg, states=[t for t in cfg["states"] if t["name"] != nm],
                      pre_nt={k: v for k, v in cfg["pre_nt"].items() if k != nm})
            yield dict(plan, config=c2)
    if cfg.get("default") and True:
        c2 = dict(cfg, default=None, states=[t for t in cfg["states"] if t["kind"] != "default"])
        yield dict(plan, config=c2)
    if len(cfg["classes"]) > 1:
        sts = []
        for t in cfg["states"]:
            t2 = dict(t, cls="Leaf", defined_in=["Leaf"], base_sig=None)
            sts.append(t2)
        yield dict(plan, config=dict(cfg, classes=["Leaf"], done_in="Leaf", states=sts))
    if cfg["pre_nt"]:
        yield dict(plan, config=dict(cfg, pre_nt={}))
    if cfg["boot_us"]:
        yield dict(plan, config=dict(cfg, boot_us=0))
    for i, t in enumerate(cfg["states"]):
        if t.get("must_finish") and t["kind"] != "default":
            sts = list(cfg["states"])
            sts[i] = dict(t, must_finish=False)
            yield dict(plan, config=dict(cfg, states=sts))
        if t["kind"] == "timed" and t.get("next") is not None:
            sts = list(cfg["states"])
            sts[i] = dict(t, next=None)
            yield dict(plan, config=dict(cfg, states=sts))
    # smaller clock advances
    g = GRID_US if cfg["dyadic"] else 1000
    for i, op in enumerate(ops):
        if op[0] == "adv" and op[1] > g:
            for nv in (g, (op[1] // (2 * g)) * g):
                if 0 < nv < op[1]:
                    yield dict(plan, ops=ops[:i] + [["adv", nv]] + ops[i + 1:])
