#!/venv/bin/python
"""Soundness of the inverted single-threaded loop (DESIGN 2.4): the same robot plans are executed
(a) inverted - hal.waitForNotifierAlarm runs the scheduler on the robot's own thread, and
(b) conventionally - the robot runs in its own thread and really blocks in the HAL notifier wait while a
    scheduler thread advances the paused clock (baton passed at every wait),
and the complete event logs must be identical.  Self-test only; no check depends on (b).

    seam_soundness.py [--n 60]
"""
import argparse, os, shutil, sys
HERE = os.path.dirname(os.path.abspath(__file__))
sys.path.insert(0, os.path.dirname(HERE))
from simkit import orch, util


def main():
    ap = argparse.ArgumentParser()
    ap.add_argument("--n", type=int, default=60)
    a = ap.parse_args()
    from engines import robot
    bad = 0
    scratch = orch.make_scratch()
    try:
        for prop in ("C05", "C06", "C07", "C10", "C11"):
            same = 0
            for i in range(a.n):
                plan = robot.generate(util.mix(1234, prop, i), prop, "quick", 1000 + i)
                os.environ.pop("VERIF_THREADED", None)
                r1 = orch.fresh_exec(plan, scratch)
                os.environ["VERIF_THREADED"] = "1"
                r2 = orch.fresh_exec(plan, scratch)
                os.environ.pop("VERIF_THREADED", None)
                if r1.get("status") == "ok" and r2.get("status") == "ok" and r1.get("digest") == r2.get("digest"):
                    same += 1
                else:
                    bad += 1
                    print(f"  {prop} plan {i}: inverted {r1.get('status')} {r1.get('digest')}  threaded {r2.get('status')} {r2.get('digest')} {r2.get('error', '')[:200]}")
            print(f"{prop}: {same}/{a.n} plans give identical logs in the inverted and the threaded arrangement", flush=True)
    finally:
        shutil.rmtree(scratch, ignore_errors=True)
    return 1 if bad else 0


if __name__ == "__main__":
    sys.exit(main())
