#!/venv/bin/python
"""No-false-alarm test: behaviour-preserving refactorings (written by sub-agents that never saw /verif)
are applied to a scratch copy of /repo; the 43 tests and every relevant quick check must stay green.

    refactor_check.py [DIR ...]        default: every /verif/refactors/<id>/ ; --all-props runs all 15 checks
"""
import os, shutil, subprocess, sys, tempfile, time
HERE = os.path.dirname(os.path.abspath(__file__))
VERIF = os.path.dirname(HERE)
PY = sys.executable
ALL = "C01 C02 C03 C04 C05 C06 C07 C09 C10 C11 C13 C14 C15 C16 C19".split()
BY_FILE = {
    "magicbot/state_machine.py": "C01 C02 C03 C04 C13".split(),
    "magicbot/magicrobot.py": "C05 C06 C07 C10 C11 C09 C19 C01 C13 C15".split(),
    "magicbot/magic_tunable.py": "C09 C10 C11 C02 C04 C05".split(),
    "magicbot/magic_reset.py": "C10 C09".split(),
    "robotpy_ext/autonomous/selector.py": "C14 C05 C07 C10 C13 C15".split(),
    "robotpy_ext/autonomous/stateful_autonomous.py": ["C15"],
    "robotpy_ext/misc/precise_delay.py": "C16 C05 C14".split(),
    "robotpy_ext/misc/simple_watchdog.py": "C19 C05".split(),
    "robotpy_ext/misc/periodic_filter.py": ["C19"],
    "robotpy_ext/control/toggle.py": ["C19"],
    "robotpy_ext/control/button_debouncer.py": ["C19"],
}


def main():
    args = [a for a in sys.argv[1:] if not a.startswith("--")]
    if not args:
        rd = os.path.join(VERIF, "refactors")
        args = [os.path.join(rd, n) for n in sorted(os.listdir(rd))]
    allp = "--all-props" in sys.argv
    bad = 0
    for src in args:
        src = os.path.abspath(src)
        name = os.path.basename(src.rstrip("/"))
        d = tempfile.mkdtemp(prefix="verif-rf-", dir="/dev/shm")
        dst = os.path.join(d, "repo")
        try:
            shutil.copytree("/repo", dst, ignore=shutil.ignore_patterns(".git", "__pycache__", "docs", "networktables.json"))
            patch = os.path.join(src, "patch.diff")
            r = subprocess.run(["git", "apply", "--unsafe-paths", "--directory", dst, patch], cwd="/", capture_output=True, text=True)
            if r.returncode:
                r = subprocess.run(["patch", "-p1", "-d", dst, "-i", patch], capture_output=True, text=True)
            if r.returncode:
                print(f"{name}: patch does not apply: {r.stderr[:300]}"); bad += 1; continue
            files = [l[6:].strip() for l in open(patch) if l.startswith("+++ b/")]
            t = subprocess.run([PY, "-m", "pytest", "-q", "-p", "no:cacheprovider", "tests"], cwd=dst, env=dict(os.environ, PYTHONPATH=dst),
                               capture_output=True, text=True)
            if "43 passed" not in t.stdout:
                print(f"{name}: repository tests fail with this refactoring: {t.stdout[-300:]}"); bad += 1; continue
            props = ALL if allp else sorted({p for f in files for p in BY_FILE.get(f, ALL)})
            out = os.path.join(d, "out"); os.makedirs(out)
            env = dict(os.environ, VERIF_REPO=dst, VERIF_REPLAY_DIR=out, VERIF_EVIDENCE_DIR=out)
            res = []
            for p in props:
                t0 = time.time()
                r = subprocess.run([PY, os.path.join(VERIF, "check.py"), p, "--tier", "quick"], env=env, capture_output=True, text=True)
                res.append((p, r.returncode))
                if r.returncode != 0:
                    bad += 1
                    print(f"{name}: check {p} exit {r.returncode}")
                    for l in r.stdout.splitlines():
                        if l.startswith(("VIOLATION", "HARNESS", "  rule=")):
                            print("    " + l[:400])
                    # keep the replay for analysis
                    for f in os.listdir(out):
                        if f.startswith(p + "-"):
                            shutil.copy(os.path.join(out, f), f"/tmp/rf_{name}_{f}")
            print(f"{name}: files {files} -> " + " ".join(f"{p}:{'ok' if rc == 0 else 'FAIL(%d)' % rc}" for p, rc in res), flush=True)
        finally:
            shutil.rmtree(d, ignore_errors=True)
    print(f"\nfailing (refactoring, check) pairs: {bad}")
    return 1 if bad else 0


if __name__ == "__main__":
    sys.exit(main())
