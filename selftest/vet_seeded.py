#!/venv/bin/python
"""Vet a change proposed by a sub-agent in a scratch worktree of /repo (outside /repo and /verif)
and, if it holds up, keep it as /verif/seeded/<id>/ (patch.diff, demo.py, notes.md, meta.json).

    vet_seeded.py /tmp/wt/out/C01_a [...]

Confirms: demo passes on the unmodified tree; with the patch applied the 43 repository
tests pass and the demo fails.  The worktree is removed afterwards."""
import json, os, shutil, subprocess, sys, tempfile

PY = "/venv/bin/python"
VERIF = os.path.dirname(os.path.dirname(os.path.abspath(__file__)))


def sh(cmd, cwd, env=None, timeout=900):
    r = subprocess.run(cmd, cwd=cwd, env=env, capture_output=True, text=True, timeout=timeout)
    return r.returncode, (r.stdout + r.stderr)


def vet(src):
    sid = os.path.basename(src.rstrip("/"))
    prop = sid.split("_")[0]
    # the demos assert that the library is imported from the agent's own worktree, so vet there
    root = os.path.dirname(os.path.dirname(os.path.abspath(src.rstrip("/"))))     # /tmp/wt or /tmp/wt2
    wt = os.path.join(root, prop)
    created = False
    if not os.path.isdir(wt):
        rc, out = sh(["git", "-C", "/repo", "worktree", "add", "--detach", wt, "HEAD", "-q"], "/")
        if rc:
            return sid, False, "worktree: " + out
        created = True
    sh(["git", "checkout", "--", "."], wt)
    rc, out = sh(["git", "status", "--porcelain", "--untracked-files=no"], wt)
    if out.strip():
        return sid, False, "worktree not clean: " + out
    ran = []
    try:
        env = dict(os.environ, PYTHONPATH=wt, PYTHONDONTWRITEBYTECODE="1")
        demo = os.path.join(src, "demo.py")
        scratch = tempfile.mkdtemp(prefix="vetcwd-", dir="/tmp")
        rc0, out0 = sh([PY, demo], wt, env)
        ran.append(f"demo on unmodified tree: exit {rc0}")
        if rc0 != 0:
            return sid, False, "demo fails on the unmodified tree:\n" + out0[-1500:]
        rc, out = sh(["git", "apply", os.path.join(src, "patch.diff")], wt)
        if rc:
            return sid, False, "patch does not apply: " + out
        rc1, out1 = sh([PY, "-m", "pytest", "-q", "-p", "no:cacheprovider", "tests"], wt, env)
        tail = out1.strip().splitlines()[-1] if out1.strip() else ""
        ran.append(f"43 tests with the change: exit {rc1} ({tail})")
        if rc1 != 0 or "43 passed" not in out1:
            return sid, False, "tests do not pass with the change: " + out1[-1500:]
        rc2, out2 = sh([PY, demo], wt, env)
        ran.append(f"demo with the change: exit {rc2}")
        if rc2 == 0:
            return sid, False, "demo still passes with the change applied"
        dst = os.path.join(VERIF, "seeded", sid)
        os.makedirs(dst, exist_ok=True)
        for f in ("patch.diff", "demo.py", "notes.md"):
            if os.path.exists(os.path.join(src, f)):
                shutil.copy(os.path.join(src, f), os.path.join(dst, f))
        files = [l[6:] for l in open(os.path.join(src, "patch.diff")) if l.startswith("+++ b/")]
        needs = ""
        if os.path.exists(os.path.join(src, "notes.md")):
            needs = open(os.path.join(src, "notes.md")).read()[:1200]
        meta = {"id": sid, "property": prop, "files": [f.strip() for f in files], "needs": needs, "ran": ran,
                "demo_failure_output": out2[-600:], "caught_by": []}
        if os.path.exists(os.path.join(dst, "meta.json")):
            old = json.load(open(os.path.join(dst, "meta.json")))
            meta["caught_by"] = old.get("caught_by", [])
        json.dump(meta, open(os.path.join(dst, "meta.json"), "w"), indent=1)
        shutil.rmtree(scratch, ignore_errors=True)
        return sid, True, "; ".join(ran)
    finally:
        sh(["git", "checkout", "--", "."], wt)
        for junk in ("networktables.json",):
            try:
                os.remove(os.path.join(wt, junk))
            except OSError:
                pass
        if created:
            sh(["git", "-C", "/repo", "worktree", "remove", "--force", wt], "/")


if __name__ == "__main__":
    bad = 0
    for src in sys.argv[1:]:
        sid, ok, msg = vet(src)
        print(("KEPT   " if ok else "REJECT ") + sid + ": " + msg, flush=True)
        bad += not ok
    sys.exit(1 if bad else 0)
