#!/venv/bin/python
"""Print the catch matrix (markdown) from selftest/mutants.json and seeded/*/meta.json."""
import json, os, re
HERE = os.path.dirname(os.path.abspath(__file__))
VERIF = os.path.dirname(HERE)
print("| seeded change | breaks | files | what it needs to manifest | caught by (quick tier) |")
print("|---|---|---|---|---|")
sd = os.path.join(VERIF, "seeded")
for n in sorted(os.listdir(sd)):
    m = json.load(open(os.path.join(sd, n, "meta.json")))
    notes = ""
    p = os.path.join(sd, n, "notes.md")
    need = m.get("summary", "")
    cb = "; ".join(f"{c['property']} `{c['rule']}`" for c in m.get("caught_by", [])) or "**not caught** (see below)"
    files = ", ".join(os.path.basename(f) for f in m.get("files", []))
    print(f"| {n} | {m['property']} | {files} | {need} | {cb} |")
