#!/venv/bin/python
"""Determinism self-test: the same seeds must give bit-identical event logs
 (a) as forked children of ONE worker, (b) as forked children of 16 workers (different
 assignment of runs to processes), (c) each in a fresh interpreter without fork,
 (d) under a different PYTHONHASHSEED.

    determinism.py [--n 200] [--fresh 24] [PROP ...]
"""
import argparse, os, shutil, sys
HERE = os.path.dirname(os.path.abspath(__file__))
sys.path.insert(0, os.path.dirname(HERE))
from simkit import orch, registry, util


def main():
    ap = argparse.ArgumentParser()
    ap.add_argument("props", nargs="*")
    ap.add_argument("--n", type=int, default=200)
    ap.add_argument("--fresh", type=int, default=16)
    ap.add_argument("--seed", type=int, default=int(os.environ.get("VERIF_SEED", "0")))
    a = ap.parse_args()
    props = a.props or sorted(registry.PROPS)
    bad = 0
    for prop in props:
        eng = registry.PROPS[prop]["engine"]
        scratch = orch.make_scratch()
        try:
            A = orch.run_batch(eng, prop, "quick", a.seed, a.n, 1, 600, scratch, digests=True)["digests"]
            B = orch.run_batch(eng, prop, "quick", a.seed, a.n, 16, 600, scratch, digests=True)["digests"]
            os.environ["VERIF_HASHSEED"] = "1"
            D = orch.run_batch(eng, prop, "quick", a.seed, a.n, 5, 600, scratch, digests=True)["digests"]
            os.environ.pop("VERIF_HASHSEED")
            engine = orch.load_engine(eng)
            C = {}
            step = max(1, a.n // max(a.fresh, 1))
            for i in range(0, a.n, step):
                plan = engine.generate(util.mix(a.seed, prop, i), prop, "quick", i)
                r = orch.fresh_exec(plan, scratch)
                C[str(i)] = r.get("digest", r.get("status", "?"))
            ok = len(A) == a.n and A == B and A == D and all(A[k] == v for k, v in C.items())
            ndist = len(set(A.values()))
            print(f"{prop}: {a.n} seeds  1-worker==16-workers: {A == B}  ==hashseed1: {A == D}  ==fresh({len(C)}): {all(A[k] == v for k, v in C.items())}  distinct logs: {ndist}  -> {'ok' if ok else 'MISMATCH'}", flush=True)
            if not ok:
                bad += 1
                for k in sorted(A, key=int):
                    if A.get(k) != B.get(k) or A.get(k) != D.get(k) or (k in C and C[k] != A[k]):
                        print("   first differing run index:", k, A.get(k), B.get(k), D.get(k), C.get(k))
                        break
        finally:
            shutil.rmtree(scratch, ignore_errors=True)
    return 1 if bad else 0


if __name__ == "__main__":
    sys.exit(main())
