#!/venv/bin/python
"""Sensitivity self-test: apply a mutant to a scratch copy of /repo (outside /repo
and /verif), run the relevant quick checks against it with VERIF_REPO, expect
exit 1 + a replay that reproduces; remove the copy.

    sensitivity.py                 all mutants in mutants.json and all /verif/seeded/*/patch.diff
    sensitivity.py NAME [NAME...]  selected ones
    --props C01,C02                override the properties to run
    --tier thorough
"""
import argparse, json, os, shutil, subprocess, sys, tempfile, time

HERE = os.path.dirname(os.path.abspath(__file__))
VERIF = os.path.dirname(HERE)
PY = sys.executable


def scratch_copy():
    base = "/dev/shm" if os.path.isdir("/dev/shm") else tempfile.gettempdir()
    d = tempfile.mkdtemp(prefix="verif-mut-", dir=base)
    dst = os.path.join(d, "repo")
    shutil.copytree("/repo", dst, ignore=shutil.ignore_patterns(".git", "__pycache__", "*.pyc", "docs", "networktables.json"))
    return d, dst


def load_mutants():
    muts = {m["name"]: m for m in json.load(open(os.path.join(HERE, "mutants.json")))}
    sd = os.path.join(VERIF, "seeded")
    if os.path.isdir(sd):
        for n in sorted(os.listdir(sd)):
            meta = os.path.join(sd, n, "meta.json")
            if os.path.exists(meta):
                m = json.load(open(meta))
                muts["seeded/" + n] = {"name": "seeded/" + n, "props": [m["property"]],
                                        "diff": os.path.join(sd, n, "patch.diff"), "why": m.get("needs", "")}
    return muts


def apply(m, dst):
    if "diff" in m:
        r = subprocess.run(["git", "apply", "--unsafe-paths", "--directory", dst, m["diff"]], cwd="/", capture_output=True, text=True)
        if r.returncode != 0:
            r = subprocess.run(["patch", "-p1", "-d", dst, "-i", m["diff"]], capture_output=True, text=True)
        if r.returncode != 0:
            raise RuntimeError("cannot apply " + m["diff"] + ": " + r.stderr + r.stdout)
        return
    p = os.path.join(dst, m["file"])
    s = open(p).read()
    if m["old"] not in s:
        raise RuntimeError(f"mutant {m['name']}: anchor text not found in {m['file']}")
    open(p, "w").write(s.replace(m["old"], m["new"], 1))


def main():
    ap = argparse.ArgumentParser()
    ap.add_argument("names", nargs="*")
    ap.add_argument("--props")
    ap.add_argument("--tier", default="quick")
    ap.add_argument("--runs")
    a = ap.parse_args()
    muts = load_mutants()
    names = a.names or list(muts)
    rows, bad = [], 0
    for n in names:
        m = muts[n]
        d, dst = scratch_copy()
        try:
            apply(m, dst)
            props = a.props.split(",") if a.props else m["props"]
            for prop in props:
                out = os.path.join(d, "out-" + prop)
                os.makedirs(out)
                env = dict(os.environ, VERIF_REPO=dst, VERIF_REPLAY_DIR=out, VERIF_EVIDENCE_DIR=out)
                if a.runs:
                    env["VERIF_RUNS"] = a.runs
                t = time.time()
                r = subprocess.run([PY, os.path.join(VERIF, "check.py"), prop, "--tier", a.tier], env=env, capture_output=True, text=True)
                vio = [l for l in r.stdout.splitlines() if l.startswith("VIOLATION")]
                rule = [l.strip() for l in r.stdout.splitlines() if l.strip().startswith("rule=")]
                ok = r.returncode == 1 and vio
                replay_ok = None
                if ok:
                    path = vio[0].split("replay=")[1]
                    rr = subprocess.run([PY, os.path.join(VERIF, "check.py"), prop, "--replay", path], env=env, capture_output=True, text=True)
                    replay_ok = rr.returncode == 1
                    # the same replay on the unmodified tree must NOT fail
                    env2 = dict(env); env2.pop("VERIF_REPO")
                    rr2 = subprocess.run([PY, os.path.join(VERIF, "check.py"), prop, "--replay", path], env=env2, capture_output=True, text=True)
                    clean_ok = rr2.returncode == 0
                    ok = replay_ok and clean_ok
                rows.append((n, prop, "CAUGHT" if ok else f"MISSED(rc={r.returncode})", f"{time.time()-t:.0f}s", (rule[0][:150] if rule else "")))
                if n.startswith("seeded/"):
                    mp = os.path.join(VERIF, n, "meta.json")
                    meta = json.load(open(mp))
                    cb = {c["property"]: c for c in meta.get("caught_by", []) if isinstance(c, dict)}
                    if ok:
                        cb[prop] = {"property": prop, "tier": a.tier, "rule": (rule[0].split(" sig=")[0].replace("rule=", "") if rule else ""),
                                    "detail": (rule[0][:300] if rule else "")}
                    else:
                        cb.pop(prop, None)
                    meta["caught_by"] = [cb[k] for k in sorted(cb)]
                    json.dump(meta, open(mp, "w"), indent=1)
                if not ok:
                    bad += 1
                    if r.returncode not in (0, 1):
                        print(r.stdout[-2000:], r.stderr[-2000:])
                print(*rows[-1], flush=True)
        finally:
            shutil.rmtree(d, ignore_errors=True)
    print(f"\n{len(rows) - bad}/{len(rows)} mutant x property pairs caught")
    return 1 if bad else 0


if __name__ == "__main__":
    sys.exit(main())
