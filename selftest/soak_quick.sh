#!/bin/bash
# Run every registered quick check under several base seeds; any non-zero exit is printed.
#   soak_quick.sh [first_seed] [last_seed]
cd "$(dirname "$0")/.."
a=${1:-1}; b=${2:-5}
out=$(mktemp -d /dev/shm/verif-soak-XXXX)
bad=0
for s in $(seq $a $b); do
  for p in C01 C02 C03 C04 C05 C06 C07 C09 C10 C11 C13 C14 C15 C16 C19; do
    VERIF_SEED=$s VERIF_REPLAY_DIR=$out VERIF_EVIDENCE_DIR=$out /venv/bin/python check.py $p --tier quick > $out/log 2>&1
    rc=$?
    if [ $rc -ne 0 ]; then bad=$((bad+1)); echo "seed $s $p rc=$rc"; grep -E "VIOLATION|HARNESS|rule=" $out/log | head -5; cp $out/C*.json /tmp/ 2>/dev/null; fi
  done
  echo "seed $s done"
done
rm -rf $out
echo "non-zero exits: $bad"
exit $bad
