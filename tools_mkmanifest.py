#!/venv/bin/python
"""Regenerate MANIFEST.json from simkit/registry.py (keeps the file consistent with the code)."""
import json, os, sys
HERE = os.path.dirname(os.path.abspath(__file__))
sys.path.insert(0, HERE)
from simkit import registry

NA = [
 {"property_id": "C08", "reason": "variable injection is a pure function of the robot/component class definitions: no clock, schedule, peer, I/O or fault for a simulator to own (DESIGN.md section 5)"},
 {"property_id": "C12", "reason": "class-definition-time validation of StateMachine subclasses, quantified over programs only; nothing to schedule or fault (DESIGN.md section 5)"},
 {"property_id": "C17", "reason": "Sharp IR reading is a pure function of one voltage; right tool is enumeration of ADC codes, not simulation (DESIGN.md section 5)"},
 {"property_id": "C18", "reason": "unit conversion / linear sensor scaling are algebraic identities over inputs, no history or timing (DESIGN.md section 5)"},
 {"property_id": "C20", "reason": "crc7 table-vs-bit-serial equivalence is a pure function of a byte string (DESIGN.md section 5)"},
]
ALL = [f"C{i:02d}" for i in range(1, 21)]

def main():
    checks = []
    for pid in sorted(registry.PROPS):
        sp = registry.PROPS[pid]
        checks.append({
            "property_id": pid,
            "quick_cmd": f"/venv/bin/python /verif/check.py {pid} --tier quick",
            "thorough_cmd": f"/venv/bin/python /verif/check.py {pid} --tier thorough",
            "evidence_file": f"/verif/evidence/{pid}.json",
            "replay_cmd_template": f"/venv/bin/python /verif/check.py {pid} --replay {{path}}",
            "engine": sp["engine"],
            "level_claimed": {"category": sp.get("level", "exploration"), "text": sp["level_text"], "design_ref": sp.get("design_ref", "DESIGN.md section 4")},
            "level_note": sp["level_note"],
            "technique": sp.get("technique", "deterministic simulation with fault injection: seeded model-guided schedules/faults against the real code on the paused HAL clock, reference-model diff + history invariants, ddmin replay"),
        })
    claimed = {c["property_id"] for c in checks}
    na = [n for n in NA if n["property_id"] not in claimed]
    for pid in ALL:
        if pid not in claimed and pid not in {n["property_id"] for n in na}:
            na.append({"property_id": pid, "reason": "check not built yet in this session; see DESIGN.md section 4 for the planned engine"})
    engines = {}
    for pid, sp in registry.PROPS.items():
        engines.setdefault(sp["engine"], []).append(pid)
    man = {
        "version": 1,
        "setup_cmd": "/venv/bin/python /verif/setup_check.py",
        "hooks": {
            "guard": "ROBOTPY_WPILIB_UTILITIES_VERIF",
            "enable": "no source hooks exist: every seam (HAL sim clock, hal.waitForNotifierAlarm, DriverStationSim, ntcore local instance, module attributes) is reachable from outside, so checks import /repo's working tree unmodified",
            "baseline_off_cmd": "cd /repo && /venv/bin/python -m pytest -ra -q -p no:cacheprovider --timeout=900 --continue-on-collection-errors",
            "source_commits": [],
            "add_only": True,
        },
        "engines": [{"name": e, "path": f"/verif/engines/{e}.py", "serves_properties": sorted(ps),
                     "kind_free_text": registry.ENGINE_TEXT.get(e, "")} for e, ps in sorted(engines.items())],
        "checks": checks,
        "not_applicable": sorted(na, key=lambda n: n["property_id"]),
        "notes": "Deterministic simulation with fault injection; see DESIGN.md. Genuine defects repaired by fix: commits are listed in known_findings.txt. exit 2 from a check means harness error, never a verdict.",
    }
    with open(os.path.join(HERE, "MANIFEST.json"), "w") as f:
        json.dump(man, f, indent=1)
    print("wrote MANIFEST.json with", len(checks), "checks;", len(man["not_applicable"]), "not applicable/unclaimed")

if __name__ == "__main__":
    main()
