"""Direct invariants for C01-C04 and C13, phrased over the recorded history of the
*implementation* only (ops, clock, the calls the state functions received,
done() invocations, is_executing / current_state after each op).  They do not look
at the reference model, so a misconception shared by model and code is still
caught, and they only assert what the property statements say.

history entry: {"i", "op", "t0", "t", "ev": [("CALL", name, cls, args, t_us, dur_topic_value, act) | ("DONE",)], "after": (is_executing, current_state, current_state_nt)}
"""
from simkit.util import Violation

TOL = 1e-9
BAND = 1e-7


def _calls(h):
    return [e for e in h["ev"] if e[0] == "CALL"]


def _has_done(h):
    return any(e[0] == "DONE" for e in h["ev"])


def _valid_target(sdef, act):
    return act is not None and act[0] in ("next", "now") and act[1] in sdef


def _is_seq(act):
    return act is not None and act[0] == "seq"


def _nows(sdef, act):
    """number of explicit next_state_now() calls (with an existing target) the state function made"""
    if act is None:
        return 0
    if act[0] == "seq":
        return sum(1 for x in act[1] if x[0] == "now" and x[1] in sdef)
    return 1 if act[0] == "now" and act[1] in sdef else 0


def check(prop, cfg, history, exact):
    sdef = {s["name"]: s for s in cfg["states"]}
    if prop == "C01":
        _c01(prop, cfg, sdef, history)
    elif prop == "C02":
        _c02(prop, cfg, sdef, history, exact)
    elif prop == "C03":
        _c03(prop, cfg, sdef, history, exact)
    elif prop == "C04":
        _c04(prop, cfg, sdef, history, exact)
    elif prop == "C13":
        _c13(prop, cfg, sdef, history, exact)


def _fail(prop, rule, h, msg):
    raise Violation(prop, f"inv.{rule}", f"op {h['i']} {h['op']}: {msg}", sig=f"{prop}:inv.{rule}", at=h["i"])


# ------------------------------------------------------------------ C01

def _c01(prop, cfg, sdef, history):
    engaged = False          # engage() since the previous iteration
    ext_stop = False         # done()/on_disable() since the previous iteration
    last_ctl = None
    prev_exec = False        # is_executing after the previous iteration
    for h in history:
        k = h["op"][0]
        if k == "restart":
            engaged, ext_stop, last_ctl, prev_exec = False, False, None, False
        elif k == "engage":
            engaged, last_ctl = True, "engage"
        elif k in ("done", "disable"):
            ext_stop, last_ctl = True, "stop"
        elif k == "exec":
            calls = _calls(h)
            for c in calls:
                st = sdef[c[1]]
                regular = st["kind"] != "default"
                if regular and not st.get("must_finish") and not engaged:
                    _fail(prop, "regular_without_engage", h,
                          f"regular state {c[1]} ran although engage() was not called since the previous iteration")
                if regular and not engaged and (not prev_exec or ext_stop):
                    _fail(prop, "ran_after_stop", h,
                          f"state {c[1]} ran without engage() although the machine had stopped")
            # (several actions in one call, one of which stopped the machine: what the remaining ones do is not stated)
            opaque = (any(_is_seq(c[6]) for c in calls) and _has_done(h)) or h.get("raised")
            if last_ctl == "engage" and not opaque:
                nows = sum(_nows(sdef, c[6]) for c in calls)
                if len(calls) != 1 + nows:
                    _fail(prop, "one_state_per_iteration", h,
                          f"engage() was called and done() was not: expected exactly {1 + nows} state function call(s), got {[c[1] for c in calls]}")
            prev_exec = bool(h["after"][0]) if h["after"] else False
            engaged, ext_stop, last_ctl = False, False, None


# ------------------------------------------------------------------ C02

def _tol(exact, *xs):
    """comparison slack for quantities reconstructed here by other arithmetic than the library's: 1e-9 s, or a few ulps of
    the operands when the machine clock is weeks long (at 5e6 s one ulp is already 9e-10 s)"""
    if exact:
        return 0.0
    import math
    return max(TOL, 8 * max(math.ulp(abs(x)) for x in xs if x == x and abs(x) != float("inf")) if xs else TOL)


def _c02(prop, cfg, sdef, history, exact):
    tol = 0.0 if exact else TOL
    stay = None       # dict(state, s, d, start_abs, last_exec_index, last_act, clean)
    clean = False     # nothing but adv / ntdur / plain engage since the stay's last call
    engaged = False
    for h in history:
        op = h["op"]
        k = op[0]
        if k in ("restart", "done", "disable") or (k == "engage" and op[2]):
            stay = None
            clean = False
            if k == "restart":
                engaged = False
            continue
        if k == "engage":
            engaged = True
            continue
        if k != "exec":
            continue
        calls = _calls(h)
        now2 = h["t0"] * 1e-6
        for c in calls:
            a = c[3]
            if a["state_tm"] < -tol:
                _fail(prop, "state_tm_negative", h, f"state {c[1]} received state_tm={a['state_tm']!r}")
        # --- relation between the previous stay and what this iteration did
        if stay is not None and clean and engaged and calls:
            c = calls[0]
            a = c[3]
            exp_abs = stay["start_abs"] + (stay["s"] + stay["d"])
            rel = now2 - stay["start_abs"]
            lim = stay["s"] + stay["d"]
            in_band = (not exact) and abs(rel - lim) < BAND
            same_stay = c[1] == stay["state"] and a["initial_call"] is False
            if same_stay:
                if rel > lim and not in_band:
                    _fail(prop, "ran_past_expiry", h,
                          f"timed state {c[1]} entered at {stay['s']!r} with duration {stay['d']!r} still ran at tm={rel!r}")
            elif not in_band:
                if not (rel > lim):
                    _fail(prop, "left_before_expiry", h,
                          f"timed state {stay['state']} (entered {stay['s']!r}, duration {stay['d']!r}) lost the floor at tm={rel!r} without a transition request")
                nxt = sdef[stay["state"]].get("next")
                if nxt is not None:
                    if c[1] != nxt or a["initial_call"] is not True:
                        _fail(prop, "wrong_successor", h, f"after {stay['state']} expired expected an initial call of {nxt}, got {c[1]} initial_call={a['initial_call']}")
                    entry = a["tm"] - a["state_tm"]
                    if abs(entry - lim) > _tol(exact, a["tm"], a["state_tm"], lim):
                        _fail(prop, "successor_clock", h,
                              f"successor {c[1]} clock starts at {entry!r}, expected the predecessor's expiry {lim!r}")
                else:
                    if c[1] != cfg["first"] or a["initial_call"] is not True:
                        _fail(prop, "wrong_successor", h, f"continuously engaged machine should start over at {cfg['first']}, got {c[1]}")
                    start2 = now2 - a["tm"]
                    if abs(start2 - exp_abs) > _tol(exact, now2, a["tm"], stay["start_abs"], lim):
                        _fail(prop, "restart_clock", h,
                              f"machine restarted with tm={a['tm']!r} at clock {now2!r}: start {start2!r}, expected the final state's expiry instant {exp_abs!r}")
                    if abs(a["state_tm"] - a["tm"]) > _tol(exact, a["tm"]):
                        _fail(prop, "restart_clock", h, f"first state after restart: state_tm={a['state_tm']!r} tm={a['tm']!r}")
        if stay is not None and clean and engaged and not calls:
            _fail(prop, "engaged_but_nothing_ran", h, "engage() was called, a timed state held the floor, yet no state function ran")
        # --- the stay that holds the floor after this iteration
        stay_new = None
        if calls:
            c = calls[-1]
            a = c[3]
            st = sdef[c[1]]
            act = c[6]
            transition = act is not None and (act[0] in ("done", "seq") or (act[0] in ("next", "now") and act[1] in sdef))
            nested_parent_acted = any(cc[6] is not None and cc[6][0] in ("next", "done", "seq") for cc in calls[:-1])
            if st["kind"] == "timed" and not transition and not nested_parent_acted:
                if a["initial_call"] is True:
                    d = c[5]
                    stay_new = {"state": c[1], "s": a["tm"] - a["state_tm"], "d": d, "start_abs": c[4] * 1e-6 - a["tm"]}
                elif stay is not None and stay["state"] == c[1] and clean:
                    stay_new = stay
        stay = stay_new
        clean = True
        engaged = False


# ------------------------------------------------------------------ C03

def _num(x):
    return isinstance(x, (int, float)) and not isinstance(x, bool)


def _noact(act):
    return act is None or act[0] is None


def _c03(prop, cfg, sdef, history, exact):
    tol = 0.0 if exact else TOL
    prev = None           # previous CALL of this instance
    prev_clean = False    # prev was the only call of its iteration, did nothing, and no stop/forced engage/restart since
    engaged = False
    prev_exec = False
    stop_since = False
    for h in history:
        op = h["op"]
        k = op[0]
        if k == "restart":
            prev, prev_clean, engaged, prev_exec, stop_since = None, False, False, False, False
            continue
        if k in ("done", "disable"):
            prev_clean = False
            stop_since = True
            continue
        if k == "engage":
            engaged = True
            if op[2]:
                prev_clean = False
            continue
        if k != "exec":
            continue
        calls = _calls(h)
        for n, c in enumerate(calls):
            name, a = c[1], c[3]
            st = sdef[name]
            for p in ("tm", "state_tm"):
                if p in a and not _num(a[p]):
                    _fail(prop, "arg_type", h, f"state {name}: {p} received {a[p]!r}")
            if "initial_call" in a and not isinstance(a["initial_call"], bool):
                _fail(prop, "arg_type", h, f"state {name}: initial_call received {a['initial_call']!r}")
            if "state_tm" in a and a["state_tm"] < -tol:
                _fail(prop, "negative_time", h, f"state {name}: state_tm={a['state_tm']!r}")
            if "tm" in a and st["kind"] != "default" and a["tm"] < -tol:
                _fail(prop, "negative_time", h, f"state {name}: tm={a['tm']!r}")
            if prev is not None and prev[1] != name and "initial_call" in a and a["initial_call"] is not True:
                _fail(prop, "entry_not_initial", h, f"state {name} entered after {prev[1]} but initial_call was {a['initial_call']!r}")
            continues = (engaged and st["kind"] != "default") or (not engaged and (st["kind"] == "default" or st.get("must_finish")))
            if n == 0 and prev is not None and prev[1] == name and prev_clean and st["kind"] != "timed" and continues:
                if "initial_call" in a and a["initial_call"] is not False:
                    _fail(prop, "repeat_marked_initial", h, f"consecutive call of {name} without any re-entry got initial_call={a['initial_call']!r}")
                pa = prev[3]
                if "state_tm" in a and "state_tm" in pa and a["state_tm"] < pa["state_tm"] - tol:
                    _fail(prop, "time_decreased", h, f"state {name}: state_tm went from {pa['state_tm']!r} to {a['state_tm']!r}")
                if "tm" in a and "tm" in pa and st["kind"] != "default" and a["tm"] < pa["tm"] - tol:
                    _fail(prop, "time_decreased", h, f"state {name}: tm went from {pa['tm']!r} to {a['tm']!r}")
            if n == 0 and engaged and (not prev_exec or stop_since) and st["kind"] != "default":
                if "tm" in a and abs(a["tm"]) > tol:
                    _fail(prop, "tm_not_zero_at_start", h, f"machine started in this iteration but {name} received tm={a['tm']!r}")
                if "initial_call" in a and a["initial_call"] is not True:
                    _fail(prop, "entry_not_initial", h, f"machine started in this iteration but {name} received initial_call={a['initial_call']!r}")
            prev = c
        if len(calls) == 1 and _noact(calls[0][6]) and not _has_done(h):
            prev_clean = True
        elif calls or _has_done(h):
            prev_clean = False
        prev_exec = bool(h["after"][0]) if h["after"] else False
        engaged = False
        stop_since = False


# ------------------------------------------------------------------ C04

def _c04(prop, cfg, sdef, history, exact):
    tol = 0.0 if exact else TOL
    prev_exec = False
    sim_cur = None       # who would run next, tracked only while the machine is not executing
    engaged = False
    last_ctl = None
    scribbled = False    # a dashboard wrote the current_state topic: what it shows is the dashboard's until further notice
    for h in history:
        op = h["op"]
        k = op[0]
        after = h["after"]
        if k == "ntcs":
            scribbled = True
            continue
        if scribbled and after is not None:
            # only is_executing is checked by these model-independent rules from here on
            after = (after[0], "", "") if not after[0] else after
            if k == "restart":
                scribbled = False
        if k == "restart":
            prev_exec, sim_cur, engaged, last_ctl = False, None, False, None
            if after != (False, "", ""):
                _fail(prop, "fresh_instance_state", h, f"new instance reports {after}")
            continue
        if k in ("done", "disable"):
            if not _has_done(h):
                _fail(prop, "done_not_invoked", h, "external stop did not go through done()")
            if after != (False, "", ""):
                _fail(prop, "not_reset_after_stop", h, f"after {k}(): (is_executing, current_state, NT current_state) = {after}")
            sim_cur, last_ctl = None, "stop"
            prev_exec = False
            continue
        if k == "engage":
            engaged, last_ctl = True, "engage"
            if not prev_exec:
                init = op[1] if op[1] in sdef and sdef[op[1]]["kind"] != "default" else None
                if op[2] or sim_cur is None:
                    sim_cur = init or cfg["first"]
            continue
        if k != "exec":
            continue
        calls = _calls(h)
        regular = [c for c in calls if sdef[c[1]]["kind"] != "default"]
        if not regular:
            if after != (False, "", ""):
                _fail(prop, "not_reset_after_stop", h,
                      f"no regular state ran in this iteration but (is_executing, current_state, NT) = {after}")
            if prev_exec and not _has_done(h):
                _fail(prop, "done_not_invoked", h, "the machine stopped running regular states but done() was not invoked")
        if prev_exec and after is not None and not after[0] and not _has_done(h):
            _fail(prop, "done_not_invoked", h, "is_executing went False without done() being invoked")
        if not prev_exec and regular and not engaged:
            _fail(prop, "ran_without_engage_after_stop", h, f"{regular[0][1]} ran although the machine had stopped and engage() was not called")
        if not prev_exec and engaged and last_ctl == "engage" and calls:
            c = calls[0]
            if c[1] != sim_cur:
                _fail(prop, "wrong_start_state", h, f"re-engaged machine should start at {sim_cur}, ran {c[1]}")
            a = c[3]
            if "initial_call" in a and a["initial_call"] is not True:
                _fail(prop, "start_not_initial", h, f"{c[1]} after re-engagement got initial_call={a['initial_call']!r}")
            if "tm" in a and abs(a["tm"]) > tol:
                _fail(prop, "tm_not_restarted", h, f"{c[1]} after re-engagement got tm={a['tm']!r}")
        if len(calls) == 1 and regular and engaged:
            c = calls[0]
            act = c[6]
            if act is None or act[0] is None or (act[0] == "next" and act[1] in sdef) or (act[0] in ("next", "now") and act[1] not in sdef):
                # running normally; unless this very call was the expiry of the last state with no request...
                want = act[1] if (act is not None and act[0] == "next" and act[1] in sdef) else c[1]
                if after[0] is not True:
                    _fail(prop, "not_executing_while_running", h, f"{c[1]} ran under engage() but is_executing is {after[0]} after the iteration")
                if not scribbled and (after[1] != want or after[2] != want):
                    _fail(prop, "current_state_wrong", h, f"current_state should name {want!r}, got attr={after[1]!r} NT={after[2]!r}")
        prev_exec = bool(after[0]) if after else False
        if not prev_exec:
            sim_cur = None
        engaged, last_ctl = False, None


# ------------------------------------------------------------------ C13

def _c13(prop, cfg, sdef, history, exact):
    tol = 0.0 if exact else TOL
    active = False        # between on_enable and the end of the run
    first_iter = False
    ever = False
    for h in history:
        op = h["op"]
        k = op[0]
        after = h["after"]
        if k == "restart":
            active, first_iter, ever = False, False, False
        elif k == "enable":
            active, first_iter, ever = True, True, True
        elif k in ("disable", "done"):
            active = False
            if after != (False, "", ""):
                _fail(prop, "not_stopped_after_disable", h, f"after {k}: {after}")
        elif k == "iter":
            if not ever:
                continue
            calls = _calls(h)
            stopped = False
            for e in h["ev"]:
                if e[0] == "DONE":
                    stopped = True
                elif e[0] == "CALL" and stopped and sdef[e[1]]["kind"] != "default" and not sdef[e[1]].get("must_finish"):
                    _fail(prop, "ran_after_done", h, f"state {e[1]} ran after done() had been called in the same iteration")
            if not active:
                if calls:
                    _fail(prop, "ran_after_end", h, f"state function(s) {[c[1] for c in calls]} ran after the run had ended (no on_enable since)")
                if after[0]:
                    _fail(prop, "executing_after_end", h, "is_executing is True after the run ended")
                continue
            if first_iter:
                first_iter = False
                if not calls or calls[0][1] != cfg["first"]:
                    _fail(prop, "wrong_first_state", h, f"first iteration after on_enable ran {[c[1] for c in calls]}, expected {cfg['first']}")
                a = calls[0][3]
                if "initial_call" in a and a["initial_call"] is not True:
                    _fail(prop, "first_not_initial", h, f"initial_call={a['initial_call']!r} on the first call after on_enable")
                if "tm" in a and abs(a["tm"]) > tol:
                    _fail(prop, "tm_not_zero", h, f"tm={a['tm']!r} on the first call after on_enable")
            if not after[0]:
                active = False    # done() or final expiry: the run is over until the next on_enable
