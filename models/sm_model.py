"""Executable reference model of magicbot.StateMachine / AutonomousStateMachine.

Written from the sentences of properties C01-C04 and C13 and the public
documentation.  Pure Python: no wpilib, no clock of its own (the caller passes a
clock function returning simulated seconds).

Vocabulary (one record for "the state that will run next"):
  req        engagement request: set by engage(), consumed by every iteration
  cur        the state that will run next, or None
  fresh      cur has not been run since it was entered
  executing  the machine is running regular states (is_executing)
  start      clock value at which the machine (re)started      -> tm = now - start
  entry      machine time at which cur was entered             -> state_tm = tm - entry
  expires    entry + duration(cur) read when cur first ran
"""
from simkit.util import Inconclusive

NEVER = float(0xFFFFFFFF)


class StateRaised(Exception):
    """The state function that was just called raised (injected fault); the iteration is abandoned there."""


class SMModel:
    def __init__(self, cfg, durations, clock, exact=True, asm=False, hooks=None):
        # hooks (optional): an object with on_call(state, tm, state_tm, initial, in_engagement, started) -> action or None
        # and on_done(); used when the caller wants to act *while* the state function runs (embedded machines)
        self.hooks = hooks
        self.states = {s["name"]: s for s in cfg["states"]}
        self.first = cfg["first"]
        self.default = cfg.get("default")
        self.dur = durations          # shared, survives restart: name -> current topic value
        self.clock = clock
        self.exact = exact
        self.asm = asm
        self.restart()

    # ---- a brand-new instance bound to the same NetworkTables names
    def restart(self):
        self.req = False
        self.cur = None
        self.fresh = False
        self.executing = False
        self.start = 0.0
        self.entry = None
        self.expires = None
        self.cs = ""                  # current_state as shown to the dashboard
        self.asm_engaged = False
        self.ever_enabled = False
        self.loose = False            # a transition was requested after the machine had stopped, in the same call:
        #                               what current_state shows until the next stop / start is not specified
        self.events = []

    def take(self):
        ev, self.events = self.events, []
        return ev

    # ---- helpers
    def _enter(self, name):
        self.cur = name
        self.fresh = True
        self.cs = name

    def _done(self):
        if self.hooks is not None:
            self.hooks.on_done()
        else:
            self.events.append(("DONE",))
        self.cur = None
        self.executing = False
        self.cs = ""
        if self.asm:
            self.req = False
            self.asm_engaged = False

    def _duration(self, name):
        if self.states[name]["kind"] != "timed":
            return NEVER
        return self.dur[name]

    # ---- public API of the machine
    def engage(self, initial=None, force=False):
        self.req = True
        if force or self.cur is None or self.cur == self.default:
            self._enter(initial if initial else self.first)

    def done(self):
        self._done()
        self.loose = False

    def on_disable(self):
        self._done()
        self.loose = False

    def on_enable(self):           # AutonomousStateMachine
        self.loose = False
        self.asm_engaged = True
        self.ever_enabled = True

    def on_iteration(self, acts):  # AutonomousStateMachine
        if self.asm_engaged:
            self.engage()
            self.execute(acts)
            self.asm_engaged = self.executing

    def execute(self, acts):
        """One control-loop iteration.  acts: list consumed front to back, one
        entry per state function invoked: (action, target, stall_us[, raises]);
        action "seq" carries a list of (action, target) pairs performed one after the other in the same call."""
        now = self.clock()
        started = False
        if not self.executing:
            if self.req:
                # the machine starts: its clock starts at this iteration
                self.start = now
                self.executing = True
                started = True
            elif self.default is None:
                return
        tm = now - self.start
        st = self.cur
        entry_at = tm
        stopped_here = False

        # a state that has been run since it was entered gives way once tm > entry + duration
        if st is not None and not self.fresh:
            if not self.exact and abs(self.expires - tm) < 1e-7:
                raise Inconclusive("step within the float dead band of an expiry")
            if self.expires < tm:
                entry_at = self.expires            # the successor's clock starts at the expiry
                nxt = self.states[st].get("next")
                if nxt is None:
                    self._done()                   # the last timed state expired: the run ends
                    stopped_here = True
                    if self.req:
                        # continuously engaged: start over at the expiry instant
                        self.start = self.start + entry_at
                        tm = now - self.start
                        entry_at = 0.0
                        self.executing = True
                        self._enter(self.first)
                        st = self.first
                        self.events.append(("RESTART",))
                    else:
                        st = None
                else:
                    self._enter(nxt)
                    st = nxt
                    self.events.append(("HANDOVER",))

        # without a request only a must_finish state may go on
        if not (self.req or (st is not None and self.states[st].get("must_finish"))):
            st = None

        if st is None and self.default is not None:
            if self.executing:
                self._done()                       # stopping always goes through done()
            st = self.default
            if self.cur != st:
                self.fresh = True
                self.cur = st                      # not shown in current_state

        if st is not None:
            initial = self.fresh
            if initial:
                self.fresh = False
                self.entry = entry_at
                self.expires = entry_at + self._duration(st)
            in_eng = self.executing
            if self.hooks is not None:
                act = self.hooks.on_call(st, tm, tm - self.entry, initial, in_eng, started)
            else:
                self.events.append(("CALL", st, tm, tm - self.entry, initial, in_eng, started))
                act = acts.pop(0) if acts else None
            if st == self.default:
                act = None
            if act:
                a, target, stall = act[0], act[1], act[2]
                boom = len(act) > 3 and bool(act[3])
                # (the stall itself is applied by the caller's clock: see engine)
                if stall:
                    self.clock(stall)
                for n1, (a1, t1) in enumerate(target if a == "seq" else [(a, target)]):
                    if n1 and not self.executing:
                        if not self.asm:
                            break          # a state function of a plain machine does nothing more once its machine stopped
                        if a1 in ("next", "now") and t1 in self.states:
                            self.loose = True
                    if a1 == "next" and t1 in self.states:
                        self._enter(t1)
                    elif a1 == "now" and t1 in self.states:
                        self._enter(t1)
                        # the nested iteration is part of this one: it does not use up the engagement request
                        # (unless it stopped the machine)
                        req = self.req
                        self.execute(acts)
                        self.req = req and self.executing
                    elif a1 == "done":
                        self._done()
                if boom:
                    # the state function raises after doing the above: nothing else of this iteration happens
                    raise StateRaised(st)
        elif not stopped_here:
            self._done()

        self.req = False

    # ---- abstract state for coverage accounting
    def abstract(self):
        if self.cur is None:
            k = "none"
        else:
            s = self.states[self.cur]
            k = s["kind"] + ("!" if s.get("must_finish") and s["kind"] != "default" else "")
        return (k, self.fresh, self.executing, self.req, self.asm_engaged)
