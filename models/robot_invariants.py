"""Direct invariants for C05, C06, C07, C10, C11 over the observed log of one robot
lifetime.  They do not use the reference model: only the generated configuration,
the event table and what the callbacks / wait seam observed.

log record: [site, visit, t_us, /robot/mode, attribute snapshot, extra]
wait record: ["wait", n, t_us, alarm_us, {feedback key: NT value}, None]
"""
from simkit.util import Violation
from models.robot_model import fb_key, fb_value, period_us, index_events, declared_order


def _fail(prop, rule, i, msg):
    raise Violation(prop, f"inv.{rule}", f"event {i}: {msg}", sig=f"{prop}:inv.{rule}", at=i)


def _iterations(log):
    """Split the log into segments ending at each wait record: (start index, end index incl. wait)."""
    segs, start = [], 0
    for i, r in enumerate(log):
        if r[0] == "wait":
            segs.append((start, i))
            start = i + 1
    return segs, start


def check(prop, cfg, ops, log, outcome):
    {"C05": _c05, "C06": _c06, "C07": _c07, "C10": _c10, "C11": _c11}[prop](prop, cfg, ops, log, outcome)


MODE_CODE = {"teleop": "robot.teleopPeriodic", "disabled": "robot.disabledPeriodic", "test": "robot.testPeriodic"}


HOOK_SUFFIX = ("Init", ".on_enable", ".on_disable", ".setup", ".ctor")


def _c05(prop, cfg, ops, log, outcome):
    comps = [c["name"] for c in declared_order(cfg)]
    nfb = len(cfg["robot_feedbacks"]) + sum(len(c["feedbacks"]) for c in cfg["components"])
    segs, _ = _iterations(log)
    p = period_us(cfg)
    last = None
    # driver-station state as of the moment each record was logged (before that record's own events)
    ev = index_events(ops)
    ds = {"enabled": False, "mode": "teleop"}
    ds_at = {}
    utia, utia_at = bool(cfg["use_teleop_in_auto"]), {}      # (changed only outside autonomous periods)
    pcur, p_at = p, {}                                        # control_loop_wait_time held by the robot object
    for i, r in enumerate(log):
        ds_at[i] = "disabled" if not ds["enabled"] else ds["mode"]
        utia_at[i] = utia
        p_at[i] = pcur
        for act in list(ev.get((r[0], r[1]), ())) + list(ev.get((r[0], "*"), ())):
            if act[0] == "ds":
                ds = {"enabled": bool(act[1]), "mode": act[2]}
            elif act[0] == "utia":
                utia = bool(act[1])
            elif act[0] == "period":
                pcur = int(act[1] * 1e6)
    for (a, b) in segs:
        w = log[b]
        body = log[a:b]
        # the periodic part starts after the last transition hook of the segment
        k = 0
        for j, r in enumerate(body):
            if r[0].endswith(HOOK_SUFFIX):
                k = j + 1
        for j, r in enumerate(body):
            if r[0].endswith("Init") and r[0].startswith("robot."):
                # a mode session begins: it keeps the period the robot object holds right after its ...Init() hook
                p = p_at.get(a + j + 1, pcur)
        it = body[k:]
        if not it:
            _fail(prop, "empty_iteration", b, "an iteration reached its wait without running anything")
        sites = [r[0] for r in it]
        mode = it[-1][3]
        if any(r[3] != mode for r in it):
            _fail(prop, "mode_nt_changed", a + k, f"/robot/mode changed inside one iteration: {[r[3] for r in it]}")
        if mode not in ("disabled", "auto", "teleop", "test"):
            _fail(prop, "mode_nt_value", a + k, f"/robot/mode is {mode!r}")
        ex = [s for s in sites if s.endswith(".execute")]
        fbs = [s for s in sites if ".fb." in s]
        if mode in ("teleop", "auto"):
            if ex != [c + ".execute" for c in comps]:
                _fail(prop, "execute_order", a + k, f"enabled iteration ran execute() as {ex}, declared order is {comps}")
        elif ex:
            _fail(prop, "execute_when_not_enabled", a + k, f"{ex} ran in {mode} mode")
        own = {"teleop": "robot.teleopPeriodic", "disabled": "robot.disabledPeriodic", "test": "robot.testPeriodic"}.get(mode)
        if own is not None and (sites[0] != own or sites.count(own) != 1):
            _fail(prop, "mode_code_first", a + k, f"{mode} iteration ran {sites}")
        for other in ("robot.teleopPeriodic", "robot.disabledPeriodic", "robot.testPeriodic"):
            if other != own and other in sites and not (mode == "auto" and other == "robot.teleopPeriodic"):
                _fail(prop, "foreign_mode_code", a + k, f"{other} ran in {mode} mode")
        if mode == "auto":
            it_sites = [s for s in sites if s.endswith(".on_iteration")]
            if len(it_sites) > 1:
                _fail(prop, "two_modes_ran", a + k, f"{it_sites}")
            if utia_at[a + k] != ("robot.teleopPeriodic" in sites):
                _fail(prop, "teleop_in_auto", a + k, f"use_teleop_in_autonomous={utia_at[a + k]} but the autonomous iteration ran {sites}")
        if len(fbs) != len(set(fbs)) or len(fbs) != nfb:
            _fail(prop, "feedbacks_once", a + k, f"feedback getters of the iteration: {fbs} (expected each of {nfb} once)")
        if sites[-1] != "robot.robotPeriodic" or sites.count("robot.robotPeriodic") != 1:
            _fail(prop, "robotPeriodic_last", a + k, f"iteration ended with {sites[-1]}")
        rank = [1 if s.endswith(".execute") else 2 if ".fb." in s else 3 if s == "robot.robotPeriodic" else 0 for s in sites]
        if rank != sorted(rank):
            _fail(prop, "iteration_order", a + k, f"iteration ran {sites}")
        # the mode being run is the one the driver station asked for when the iteration began
        want = ds_at.get(a + k)
        if want is not None and want != mode:
            _fail(prop, "mode_follows_driver_station", a + k, f"the driver station said {want!r} when this iteration began, but the robot ran a {mode!r} iteration: {sites[:3]}...")
        # one iteration per period: inside a mode session consecutive alarms are exactly one period apart
        if last is not None and k == 0 and w[3] - last[3] != p:
            _fail(prop, "alarm_grid", b, f"consecutive notifier alarms {last[3]} -> {w[3]} are not one period ({p} us) apart")
        if w[3] - p < (it[0][2] if k == 0 else 0) and False:
            pass
        last = w


def _c06(prop, cfg, ops, log, outcome):
    comps = declared_order(cfg)
    names = [c["name"] for c in comps]
    setup_seen = {}
    enabled = {n: False for n in names}
    first_non_ctor = None
    for i, r in enumerate(log):
        site = r[0]
        if site == "wait":
            continue
        if not site.endswith(".ctor") and first_non_ctor is None:
            first_non_ctor = i
        if site.endswith(".ctor") and first_non_ctor is not None:
            _fail(prop, "ctor_after_callbacks", i, f"{site} after other callbacks had run")
        owner, _, hook = site.partition(".")
        if hook == "setup":
            if r[5] is not True:
                _fail(prop, "setup_before_injection", i, f"{site}: not every component existed and was injected")
            setup_seen[owner] = setup_seen.get(owner, 0) + 1
            if setup_seen[owner] > 1:
                _fail(prop, "setup_twice", i, f"{site} called {setup_seen[owner]} times")
            continue
        # any other callback: every setup() must be over
        if not site.endswith(".ctor"):
            for c in comps:
                if "setup" in c["hooks"] and not setup_seen.get(c["name"]):
                    _fail(prop, "callback_before_setup", i, f"{site} ran before {c['name']}.setup()")
        if owner in enabled:
            if hook == "on_enable":
                enabled[owner] = True
            elif hook == "on_disable":
                enabled[owner] = False
            elif hook == "execute":
                c = comps[names.index(owner)]
                if "on_enable" in c["hooks"] and not enabled[owner]:
                    _fail(prop, "execute_outside_bracket", i, f"{site} ran without a preceding on_enable() (or after on_disable())")
    # transitions: on entering auto/teleop all on_enable in declaration order before the init hook
    for i, r in enumerate(log):
        if r[0] in ("robot.teleopInit", "robot.autonomousInit"):
            want = [c["name"] + ".on_enable" for c in comps if "on_enable" in c["hooks"]]
            got = [x[0] for x in log[max(0, i - len(want)):i]]
            if got != want:
                _fail(prop, "on_enable_before_init", i, f"before {r[0]} expected {want}, saw {got}")
        if r[0] == "robot.disabledInit":
            want = [c["name"] + ".on_disable" for c in comps if "on_disable" in c["hooks"]]
            got = [x[0] for x in log[max(0, i - len(want)):i]]
            if got != want:
                _fail(prop, "on_disable_before_disabledInit", i, f"before disabledInit expected {want}, saw {got}")
    # leaving an enabled mode: between the last execute of a session and the first callback of the next mode, every on_disable
    for c in comps:
        if "on_disable" not in c["hooks"]:
            continue
        on = False
        for i, r in enumerate(log):
            if r[0] == c["name"] + ".execute":
                on = True
            elif r[0] == c["name"] + ".on_disable":
                on = False
            elif on and r[0] in ("robot.disabledInit", "robot.disabledPeriodic", "robot.testInit", "robot.testPeriodic", "robot.teleopInit", "robot.autonomousInit"):
                _fail(prop, "no_on_disable_on_leaving", i, f"{r[0]} ran although {c['name']}.on_disable() had not been called since its last execute()")
        if on and outcome[0] == "returned":
            _fail(prop, "no_on_disable_at_shutdown", len(log), f"robot program returned but {c['name']}.on_disable() was not called after its last execute()")


def _c07(prop, cfg, ops, log, outcome):
    ev = index_events(ops)
    # a fault fired at record i iff the event table has a raise for (site, visit) or (site, '*')
    fired = []
    for i, r in enumerate(log):
        if r[0] == "wait":
            continue
        acts = list(ev.get((r[0], r[1]), ())) + list(ev.get((r[0], "*"), ()))
        if any(a[0] == "raise" for a in acts):
            fired.append(i)
    if not fired:
        if outcome[0] != "returned":
            _fail(prop, "raised_without_fault", len(log), f"no fault was injected but the run ended with {outcome}")
        return
    # FMS state at each record, reconstructed from the packets delivered so far
    fms = bool(cfg["fms"])
    fms_at = []
    for i, r in enumerate(log):
        key = (r[0], r[1])
        for a in list(ev.get(key, ())) + list(ev.get((r[0], "*"), ())):
            if a[0] == "ds" and a[3] is not None:
                fms = bool(a[3])
        fms_at.append(fms)
    first_loud = next((i for i in fired if not fms_at[i]), None)
    if first_loud is None:
        if outcome[0] != "returned":
            _fail(prop, "fms_fault_not_swallowed", len(log), f"every fault fired with the FMS attached but the run ended with {outcome}")
    else:
        r = log[first_loud]
        if outcome != ("raised", r[0], r[1]):
            _fail(prop, "loud_fault_not_propagated", first_loud, f"{r[0]}#{r[1]} raised without the FMS attached; expected that exception to leave the robot program, outcome {outcome}")
        if first_loud != len(log) - 1:
            _fail(prop, "callbacks_after_crash", first_loud + 1, f"callbacks continued after the exception should have left the program: {log[first_loud + 1][0]}")


def _c10(prop, cfg, ops, log, outcome):
    keys = sorted((c["name"], a["attr"]) for c in cfg["components"] for a in (c["resets"] + c["plain_attrs"]))
    marked = {(c["name"], r["attr"]): r["default"] for c in cfg["components"] for r in c["resets"]}
    plain = {(c["name"], a["attr"]): a["default"] for c in cfg["components"] for a in c["plain_attrs"]}
    ev = index_events(ops)
    cur = {k: (marked[k] if k in marked else plain[k]) for k in keys}   # what an observer must see next
    started = False
    i = 0
    n = len(log)
    prev_enabled_iter = False
    seg_start = 0
    for i, r in enumerate(log):
        if r[0] == "wait":
            # end of an iteration: was it an enabled one?
            body = log[seg_start:i]
            mode = body[-1][3] if body else None
            if mode in ("teleop", "auto"):
                for k in marked:
                    cur[k] = marked[k]
            seg_start = i + 1
            for a in list(ev.get(("wait", r[1]), ())):
                if a[0] == "assign" and (a[1], a[2]) in cur:
                    cur[(a[1], a[2])] = a[3]
            continue
        snap = r[4]
        if snap is None:
            continue
        got = dict(zip(keys, snap))
        for k in keys:
            if got[k] != cur[k] or type(got[k]) is not type(cur[k]):
                what = "will_reset_to attribute" if k in marked else "ordinary attribute"
                _fail(prop, "marked_value" if k in marked else "plain_value", i,
                      f"{r[0]}#{r[1]} saw {what} {k[0]}.{k[1]} = {got[k]!r}, expected {cur[k]!r}")
        for a in list(ev.get((r[0], r[1]), ())) + list(ev.get((r[0], "*"), ())):
            if a[0] == "assign" and (a[1], a[2]) in cur:
                cur[(a[1], a[2])] = a[3]


def _c11(prop, cfg, ops, log, outcome):
    fbs = {}
    for owner, lst in [("robot", cfg["robot_feedbacks"])] + [(c["name"], c["feedbacks"]) for c in cfg["components"]]:
        for fb in lst:
            prefix = "/robot/" if owner == "robot" else f"/components/{owner}/"
            fbs[f"{owner}.fb.{fb['name']}"] = (prefix + fb_key(fb), fb)
    if not fbs:
        return
    ev = index_events(ops)
    expect = {}
    seg_start = 0
    for i, r in enumerate(log):
        if r[0] != "wait":
            continue
        body = log[seg_start:i]
        seg_start = i + 1
        counts = {}
        for x in body:
            if x[0] in fbs:
                counts[x[0]] = counts.get(x[0], 0) + 1
                acts = list(ev.get((x[0], x[1]), ())) + list(ev.get((x[0], "*"), ()))
                if not any(a[0] == "raise" for a in acts):
                    key, fb = fbs[x[0]]
                    expect[key] = fb_value(fb, x[1])
        for site in fbs:
            if counts.get(site, 0) != 1:
                _fail(prop, "getter_calls_per_iteration", i, f"{site} was called {counts.get(site, 0)} times in the iteration ending at wait#{r[1]} (mode {body[-1][3] if body else '?'})")
        got = r[4]
        for key, want in expect.items():
            if key not in got:
                _fail(prop, "entry_missing", i, f"wait#{r[1]}: {key} has no value, expected {want!r}")
            g = got[key]
            if g != want or type(g) is not type(want if not isinstance(want, tuple) else list(want)):
                if not (isinstance(want, int) and not isinstance(want, bool) and isinstance(g, float) and g == want and fbs_type(fbs, key) == "double"):
                    _fail(prop, "entry_value", i, f"wait#{r[1]}: {key} holds {g!r}, the getter returned {want!r} in this iteration")
        for key in got:
            if key not in expect:
                _fail(prop, "entry_unexpected", i, f"wait#{r[1]}: {key} holds {got[key]!r} although its getter never returned")
        # another client may overwrite an entry while the loop sleeps: that is then the value it holds
        for act in list(ev.get(("wait", r[1]), ())) + list(ev.get(("wait", "*"), ())):
            if act[0] == "clobber" and act[1] in expect:
                expect[act[1]] = act[2]


def fbs_type(fbs, key):
    for site, (k, fb) in fbs.items():
        if k == key:
            return fb["nt_type"]
    return None
