"""Executable reference model of the MagicRobot mode-switching contract
(properties C05, C06, C07, C10, C11), written from the property statements and the
public documentation.  Pure Python.

The model is driven by the same event table as the implementation: events are
keyed by (call site, visit number), so as long as model and implementation agree
they see the same driver-station packets, stalls, faults and assignments at the
same points.  Output: the expected log of user-callback invocations with the
values a harness can observe at each of them.
"""


from models.sm_model import SMModel, StateRaised
from models.sa_model import SAModel


class ModelFault(Exception):
    def __init__(self, site, visit):
        super().__init__(f"{site}#{visit}")
        self.site, self.visit = site, visit


def index_events(ops):
    table = {}
    for ev in ops:
        table.setdefault((ev["site"], ev["visit"]), []).extend(ev["acts"])
    return table


def fb_value(fb, visit):
    vals = fb["values"]
    v = vals[(visit - 1) % len(vals)]
    if fb.get("hint") is None and type(v) is int:
        v = float(v)        # an un-hinted getter goes through setValue(): python ints become doubles
    return v


def fb_key(fb):
    if fb.get("key"):
        return fb["key"]
    n = fb["name"]
    return n[4:] if n.startswith("get_") else n


def declared_order(cfg):
    """Components in the order the framework sees them: annotations of base robot classes first."""
    cs = cfg["components"]
    if not cfg.get("split_robot"):
        return list(cs)
    return [c for c in cs if c.get("in_base_robot")] + [c for c in cs if not c.get("in_base_robot")]


def period_us(cfg):
    return int(cfg["period"] * 1e6)


class RobotModel:
    def __init__(self, cfg, ops):
        self.cfg = cfg
        self.ev = index_events(ops)
        self.now = cfg["boot_us"]
        self.ds = {"enabled": False, "mode": "teleop", "fms": bool(cfg["fms"])}
        self.done = False
        self.visits = {}
        self.log = []
        self.mode_nt = "<unset>"
        self.vals = None           # (comp, attr) -> value once the components are set up
        self.autosel = cfg.get("auto_selector_initial")
        self.utia = bool(cfg["use_teleop_in_auto"])     # may be changed at run time (between autonomous periods)
        self.sel_pending = None    # chooser selection written by the dashboard ...
        self.sel = None            # ... and taken into account at the next SmartDashboard.updateValues()
        self.fb_nt = {}
        self.faults_fired = 0
        self.p = period_us(cfg)
        self.p_next = self.p       # control_loop_wait_time as the robot object holds it now; a mode latches it on entry
        self.expiry = None
        self.cap = cfg["cap_waits"]
        self.comps = declared_order(cfg)
        self.outcome = ("returned",)
        self.sessions = []          # (mode, iterations)
        # embedded state machines (integration runs): components that are StateMachines,
        # autonomous modes that are AutonomousStateMachine / StatefulAutonomous
        clock = lambda stall=0: self.now * 1e-6
        model = self

        class Hooks:
            """the embedded machine's state functions are user callbacks of the robot: log them where they happen"""

            def __init__(self, prefix):
                self.prefix = prefix

            def on_call(self, st, tm, state_tm, initial, in_eng, started):
                model.sm_calls += 1
                site = f"{self.prefix}.st.{st}"
                fault = None
                try:
                    n = model.cb(site, [tm, state_tm, initial])
                except ModelFault as f:
                    # the state function performs its action and then raises: the machine abandons the iteration there
                    n, fault = f.visit, f
                act = None
                for a in list(model.ev.get((site, n), ())) + list(model.ev.get((site, "*"), ())):
                    if a[0] == "smnext":
                        act = ("next", a[1], 0)
                    elif a[0] == "smnow":
                        act = ("now", a[1], 0)
                    elif a[0] == "smdone":
                        act = ("done", None, 0)
                    if act:
                        break
                if fault is not None:
                    model.pending_fault = fault
                    act = ((act[0], act[1], 0) if act else (None, None, 0)) + (True,)
                return act

            def on_done(self):
                model.sm_stops += 1
                model.note(f"{self.prefix}.done")

        self.sms = {}
        for c in self.comps:
            if c.get("machine"):
                m = c["machine"]
                durs = {st["name"]: st["duration"] for st in m["states"] if st["kind"] == "timed"}
                self.sms[c["name"]] = SMModel(m, durs, clock, exact=bool(cfg["dyadic"]), asm=False, hooks=Hooks(c["name"]))
        self.mode_models = {}
        for m in cfg["modes"]:
            if m.get("kind") == "asm":
                durs = {st["name"]: st["duration"] for st in m["machine"]["states"] if st["kind"] == "timed"}
                self.mode_models[m["name"]] = ("asm", SMModel(m["machine"], durs, clock, exact=bool(cfg["dyadic"]), asm=True, hooks=Hooks("mode." + m["name"])))
            elif m.get("kind") == "sa":
                self.mode_models[m["name"]] = ("sa", SAModel(dict(m["machine"], vars=[]), exact=bool(cfg["dyadic"])))
        self.sm_calls = 0
        self.sm_stops = 0
        self.pending_fault = None

    # ------------------------------------------------------------ callbacks
    def snapshot(self):
        if self.vals is None:
            return None
        return [self.vals[k] for k in sorted(self.vals)]

    def cb(self, site, extra=None):
        n = self.visits.get(site, 0) + 1
        self.visits[site] = n
        self.log.append([site, n, self.now, self.mode_nt, self.snapshot(), extra])
        acts = self.ev.get((site, n), ())
        acts = list(acts) + list(self.ev.get((site, "*"), ()))
        do_raise = False
        sm_acted = False
        for a in acts:
            k = a[0]
            if k == "ds":
                self.ds["enabled"] = bool(a[1])
                self.ds["mode"] = a[2]
                if a[3] is not None:
                    self.ds["fms"] = bool(a[3])
            elif k == "stall":
                self.now += a[1]
            elif k == "assign":
                if self.vals is not None and (a[1], a[2]) in self.vals:
                    self.vals[(a[1], a[2])] = a[3]
            elif k == "autosel":
                self.autosel = a[1]
            elif k == "utia":
                self.utia = bool(a[1])
            elif k == "period":
                self.p_next = int(a[1] * 1e6)
            elif k == "select":
                self.sel_pending = a[1]
            elif k == "end":
                self.done = True
            elif k == "raise":
                do_raise = True
            elif k == "engage":
                if a[1] in self.sms:
                    self.sms[a[1]].engage()
            elif k in ("smnext", "smdone", "smnow") and not sm_acted:
                sm_acted = True
                sm = self._owner_machine(site)
                if sm is not None and not isinstance(sm, SMModel):
                    # StatefulAutonomous: next_state()/done() take effect from the next iteration
                    if k == "smnext" and a[1] in sm.states:
                        sm.cur, sm.fresh = a[1], True
                    elif k == "smdone":
                        sm.cur = None
            elif k == "ntdur":
                self._nt_duration(a[1], a[2], a[3])
        if do_raise:
            self.faults_fired += 1
            raise ModelFault(site, n)
        return n

    def _owner_machine(self, site):
        if ".st." not in site:
            return None
        owner = site.split(".st.")[0]
        if owner in self.sms:
            return self.sms[owner]
        if owner.startswith("mode."):
            mm = self.mode_models.get(owner[5:])
            return mm[1] if mm else None
        return None

    def note(self, site, extra=None):
        n = self.visits.get(site, 0) + 1
        self.visits[site] = n
        self.log.append([site, n, self.now, self.mode_nt, self.snapshot(), extra])

    def _nt_duration(self, owner, state, value):
        """the dashboard edits a duration topic of an embedded machine"""
        sm = self.sms.get(owner)
        if sm is None and owner.startswith("mode."):
            mm = self.mode_models.get(owner[5:])
            sm = mm[1] if mm and mm[0] == "asm" else None
        if sm is not None and state in sm.dur:
            sm.dur[state] = value

    def _sm_step(self, prefix, sm, fn):
        try:
            fn()
        except StateRaised:
            # a state function raised inside the machine's iteration: the exception leaves the component's execute() /
            # the mode's on_iteration() like any other user-code fault
            sm.take()
            f, self.pending_fault = self.pending_fault, None
            if self.ds["fms"]:
                return
            raise f
        sm.take()
        self.note(f"{prefix}.post", [sm.executing, sm.cs])

    def guarded(self, site, extra=None):
        """A user callback invoked by the framework: with the FMS attached an
        exception is swallowed, otherwise it leaves the robot program."""
        try:
            return self.cb(site, extra)
        except ModelFault:
            if self.ds["fms"]:
                return None
            raise

    def wait(self):
        n = self.visits.get("wait", 0) + 1
        self.visits["wait"] = n
        self.log.append(["wait", n, self.now, self.expiry, dict(self.fb_nt), None])
        if self.now < self.expiry:
            self.now = self.expiry
        for a in list(self.ev.get(("wait", n), ())) + list(self.ev.get(("wait", "*"), ())):
            k = a[0]
            if k == "late":
                self.now += a[1]
            elif k == "ds":
                self.ds["enabled"] = bool(a[1])
                self.ds["mode"] = a[2]
                if a[3] is not None:
                    self.ds["fms"] = bool(a[3])
            elif k == "autosel":
                self.autosel = a[1]
            elif k == "utia":
                self.utia = bool(a[1])
            elif k == "period":
                self.p_next = int(a[1] * 1e6)
            elif k == "select":
                self.sel_pending = a[1]
            elif k == "end":
                self.done = True
            elif k == "assign":
                if self.vals is not None and (a[1], a[2]) in self.vals:
                    self.vals[(a[1], a[2])] = a[3]
            elif k == "clobber":
                if a[1] in self.fb_nt:
                    self.fb_nt[a[1]] = a[2]
            elif k == "ntdur":
                self._nt_duration(a[1], a[2], a[3])
        if n >= self.cap:
            self.done = True
        self.expiry += self.p

    # ------------------------------------------------------------ the contract
    def run(self):
        try:
            self._robot_init()
            while not self.done:
                if not self.ds["enabled"]:
                    self._disabled()
                elif self.ds["mode"] == "auto":
                    self._autonomous()
                elif self.ds["mode"] == "test":
                    self._test()
                else:
                    self._teleop()
        except ModelFault as f:
            self.outcome = ("raised", f.site, f.visit)
        return self.log, self.outcome

    def _robot_init(self):
        for c in self.comps:
            self.cb(f"{c['name']}.ctor")
        # injection, tunables and will_reset_to defaults are in place before any setup()
        self.vals = {}
        for c in self.comps:
            for r in c["resets"]:
                self.vals[(c["name"], r["attr"])] = r["default"]
            for a in c["plain_attrs"]:
                self.vals[(c["name"], a["attr"])] = a["default"]
        for c in self.comps:
            if "setup" in c["hooks"]:
                self.cb(f"{c['name']}.setup", True)

    def _reset(self):
        for c in self.comps:
            for r in c["resets"]:
                self.vals[(c["name"], r["attr"])] = r["default"]

    def _all(self, hook):
        for c in self.comps:
            if hook in c["hooks"]:
                n = self.guarded(f"{c['name']}.{hook}")
                if n is not None and hook == "on_disable" and c["name"] in self.sms:
                    sm = self.sms[c["name"]]
                    self._sm_step(c["name"], sm, sm.on_disable)

    def _feedbacks(self):
        owners = [("robot", self.cfg["robot_feedbacks"])] + [(c["name"], c["feedbacks"]) for c in self.comps]
        for owner, fbs in owners:
            for fb in sorted(fbs, key=lambda f: f["name"]):
                site = f"{owner}.fb.{fb['name']}"
                n = self.guarded(site)
                if n is not None:
                    prefix = "/robot/" if owner == "robot" else f"/components/{owner}/"
                    self.fb_nt[prefix + fb_key(fb)] = fb_value(fb, n)

    def _periodics(self):
        self._feedbacks()
        n = self.guarded("robot.robotPeriodic")
        if n is not None and self.sel_pending is not None:
            # the default robotPeriodic updates SmartDashboard: a chooser selection takes effect here
            self.sel = self.sel_pending

    def _enabled_periodic(self):
        for c in self.comps:
            n = self.guarded(f"{c['name']}.execute")
            if n is not None and c["name"] in self.sms:
                sm = self.sms[c["name"]]
                self._sm_step(c["name"], sm, lambda: sm.execute([]))
        self._periodics()
        self._reset()

    def _disabled(self):
        self.mode_nt = "disabled"
        it = 0
        self._all("on_disable")
        self.guarded("robot.disabledInit")
        self.p = self.p_next
        self.expiry = self.now + self.p
        while not self.done:
            if self.ds["enabled"]:
                break
            self.guarded("robot.disabledPeriodic")
            self._periodics()
            self.wait()
            it += 1
        self.sessions.append(("disabled", it))

    def _teleop(self):
        self.mode_nt = "teleop"
        it = 0
        self._all("on_enable")
        self.guarded("robot.teleopInit")
        self.p = self.p_next
        self.expiry = self.now + self.p
        while not self.done:
            if not (self.ds["enabled"] and self.ds["mode"] == "teleop"):
                break
            self.guarded("robot.teleopPeriodic")
            self._enabled_periodic()
            self.wait()
            it += 1
        self._all("on_disable")
        self.sessions.append(("teleop", it))

    def selected_mode(self):
        names = [m["name"] for m in self.cfg["modes"]]
        if self.autosel is not None and self.autosel in names:
            return self.autosel
        if self.sel is not None:
            return self.sel if self.sel in names else None
        for m in self.cfg["modes"]:
            if m.get("default"):
                return m["name"]
        return None

    def _autonomous(self):
        self.mode_nt = "auto"
        it = 0
        self._all("on_enable")
        self.guarded("robot.autonomousInit")
        utia = self.utia           # the flag as it is when the period starts
        self.p = self.p_next       # ... and the loop period
        m = self.selected_mode()
        t0 = self.now
        mm = self.mode_models.get(m) if m is not None else None
        if m is not None:
            n = self.guarded(f"mode.{m}.on_enable")
            if n is not None and mm:
                mm[1].on_enable()
        self.expiry = self.now + self.p
        while not self.done:
            if not (self.ds["enabled"] and self.ds["mode"] == "auto"):
                break
            if m is not None:
                tm = (self.now - t0) * 1e-6
                n = self.guarded(f"mode.{m}.on_iteration", tm)
                if n is not None and mm:
                    if mm[0] == "asm":
                        self._sm_step(f"mode.{m}", mm[1], lambda: mm[1].on_iteration([]))
                    else:
                        sa = mm[1]
                        sa.on_iteration(tm, None)
                        for ev in sa.take():
                            if ev[0] == "CALL":
                                self.sm_calls += 1
                                self.cb(f"mode.{m}.st.{ev[1]}", [ev[2], ev[3], ev[4]])
            if utia:
                self.guarded("robot.teleopPeriodic")
            self._enabled_periodic()
            self.wait()
            it += 1
        if m is not None:
            n = self.guarded(f"mode.{m}.on_disable")
            if n is not None and mm and mm[0] == "asm":
                self._sm_step(f"mode.{m}", mm[1], mm[1].on_disable)
        self._all("on_disable")
        self.sessions.append(("auto", it))

    def _test(self):
        self.mode_nt = "test"
        it = 0
        self.guarded("robot.testInit")
        self.p = self.p_next
        self.expiry = self.now + self.p
        while not self.done:
            if not (self.ds["enabled"] and self.ds["mode"] == "test"):
                break
            self.guarded("robot.testPeriodic")
            self._periodics()
            self.wait()
            it += 1
        self.sessions.append(("test", it))
