"""Reference model of robotpy_ext.autonomous.StatefulAutonomous (property C15),
written from the property statement.  Pure Python."""
from simkit.util import Inconclusive

NEVER = float(0xFFFFFFFF)


class SAModel:
    def __init__(self, cfg, exact=True):
        self.states = {s["name"]: s for s in cfg["states"]}
        self.first = cfg["first"]
        self.vars = {v["name"]: v for v in cfg["vars"]}
        self.exact = exact
        self.dash = {}            # dashboard (NetworkTables) values by attribute name
        self.construct()
        self.events = []

    def construct(self):
        """A (new) instance publishes its defaults."""
        for s in self.states.values():
            if s["kind"] == "timed":
                self.dash[s["name"] + "_duration"] = float(s["duration"])
        for v in self.vars.values():
            self.dash[v["name"]] = v["default"] if not isinstance(v["default"], (int, float)) or isinstance(v["default"], bool) else float(v["default"])
        self.enabled = False
        self.frozen = {}
        self.cur = None
        self.fresh = False
        self.entry = None
        self.expires = None

    def take(self):
        ev, self.events = self.events, []
        return ev

    def nt_write(self, key, value):
        if key in self.dash:
            self.dash[key] = value

    def on_enable(self):
        self.frozen = dict(self.dash)      # dashboard values are read here and nowhere else
        self.enabled = True
        self.cur = self.first
        self.fresh = True

    def _dur(self, name):
        if self.states[name]["kind"] != "timed":
            return NEVER
        return self.frozen[name + "_duration"]

    def on_iteration(self, tm, act):
        if not self.enabled:
            return
        st = self.cur
        entry_at = tm
        if st is not None and not self.fresh:
            if not self.exact and abs(self.expires - tm) < 1e-7:
                raise Inconclusive("tm within the float dead band of an expiry")
            if self.expires < tm:
                entry_at = self.expires
                st = self.states[st].get("next")
                self.cur = st
                self.fresh = True
                self.events.append(("HANDOVER",))
        if st is None:
            return
        initial = self.fresh
        if initial:
            self.fresh = False
            self.entry = entry_at
            self.expires = entry_at + self._dur(st)
        self.events.append(("CALL", st, tm, tm - self.entry, initial))
        if act:
            a, target = act[0], act[1]
            if a == "next" and target in self.states:
                self.cur = target
                self.fresh = True
            elif a == "done":
                self.cur = None

    def abstract(self):
        k = "none" if self.cur is None else self.states[self.cur]["kind"]
        return (k, self.fresh, self.enabled)
