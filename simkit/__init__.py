"""simkit: deterministic-simulation kernel for robotpy-wpilib-utilities.

Nothing in this package's top level imports wpilib; `simkit.world` does and is
only imported inside worker processes.
"""
