"""Seed mixing, canonical JSON, digests.  Pure Python, no wpilib."""
import hashlib
import json


def mix(*parts) -> int:
    """Fixed 64-bit mix of the given parts (never Python's hash())."""
    h = hashlib.blake2b(digest_size=8)
    for p in parts:
        h.update(repr(p).encode())
        h.update(b"\x00")
    return int.from_bytes(h.digest(), "big")


def cjson(obj) -> str:
    return json.dumps(obj, sort_keys=True, separators=(",", ":"))


def digest(obj, n=8) -> str:
    return hashlib.blake2b(cjson(obj).encode(), digest_size=n).hexdigest()


def h48(obj) -> int:
    return int.from_bytes(hashlib.blake2b(cjson(obj).encode(), digest_size=6).digest(), "big")


GRID_US = 15625  # 1/64 s: every multiple is an exact binary64 number of seconds


class Violation(Exception):
    """Raised by oracles.  rule = stable rule id, sig = rule + roles (used to
    decide "same failure" during minimisation and for known findings)."""

    def __init__(self, prop, rule, msg, sig=None, at=None):
        super().__init__(msg)
        self.prop = prop
        self.rule = rule
        self.msg = msg
        self.sig = sig or rule
        self.at = at

    def to_json(self):
        return {"prop": self.prop, "rule": self.rule, "sig": self.sig, "msg": self.msg, "at": self.at}


class Inconclusive(Exception):
    """The plan landed inside a float dead band (microsecond runs only): neither
    outcome is wrong, the run is discarded."""
