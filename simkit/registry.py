"""Property registry: which engine decides which property, tier sizes, evidence text."""

REAL_STUB_SM = {
    "real": ["magicbot.state_machine (StateMachine, AutonomousStateMachine, decorators) from the working tree",
             "magicbot.magic_tunable.setup_tunables", "WPILib HAL simulated FPGA clock (paused, stepped by the scheduler)",
             "ntcore local instance (duration / current_state topics)"],
    "simulated": ["the control loop and its timing (seeded scheduler)", "robot code calling engage()/done()/on_disable()",
                  "state-function bodies (generated; perform the plan's in-state actions)", "dashboard writing duration topics",
                  "robot-code restart (new instance, NT values survive)"],
}

ENGINE_TEXT = {
    "sm": "StateMachine / AutonomousStateMachine under a simulated control loop: generated machine classes (real decorators), seeded op+fault plans, paused HAL clock, real ntcore",
}

def _sm(rule, probes, quick=9000, thorough=400000):
    return {
        "engine": "sm", "level": "exploration", "rule": rule,
        "level_text": "seeded search over control-loop histories, clock schedules and faults (dropped engage(), external stops, dashboard duration edits, restarts, slow state functions) of generated machines run on the real code; every step compared with an executable reference model written from the property text, plus model-independent history invariants; sampling, not proof",
        "level_note": "trusted: WPILib HAL simulation clock and local ntcore; the reference model and invariants in /verif/models; generated machines cover <=6 states, <=110 iterations, one in-state action per call",
        "quick": {"runs": quick, "wall_s": 150}, "thorough": {"runs": thorough, "wall_s": 1500},
        "probes_expected": probes,
        "state_measure": "abstract reference-model states (kind of current state, fresh, executing, request, asm flag) and (state, op, state) transitions, hashed",
        "real_vs_stub": REAL_STUB_SM,
        "assumptions": [
            "single caller thread (the class documents itself as not thread-safe)",
            "one in-state action per state-function call; state functions do not raise; external next_state() not generated",
            "clock = WPILib HAL simulation clock; half of the runs on a 1/64 s grid with exact float comparison, the rest at 1 us with a 1e-9 s tolerance and a 1e-7 s dead band at expiry instants",
        ],
    }

PROPS = {
    "C01": _sm("seeded plans (machine shape + op/fault sequence) generated while stepping the reference model; a run is non-trivial if it contains an iteration without engage() while the machine was executing; distinct = distinct trace shape (sequence of op kinds and per-iteration call roles)",
               ["iteration_without_engage_while_executing", "must_finish_continues_without_engage", "next_state_now_nested", "default_state_ran", "stop_inside_iteration"]),
    "C02": _sm("as C01 with timed-state-heavy machines, full signatures, continuous engagement and clock steps aimed on / one tick around expiry instants; non-trivial = at least one expiry-driven hand-over or cycle restart; distinct = distinct trace shape",
               ["expiry_handover", "cycle_restart", "entry_with_state_tm_gt_0"]),
    "C03": _sm("as C01 with all 16 ordered parameter subsets spread over the states; non-trivial = at least two entries and one consecutive call; distinct = distinct trace shape",
               ["entries", "repeat_calls", "cycle_restart", "default_state_ran"]),
    "C04": _sm("as C01 with stop causes (external done/on_disable, engage withdrawn, last state expired, in-state done) at arbitrary points followed by re-engagement; non-trivial = a stop of a running machine and at least two machine starts; distinct = distinct trace shape",
               ["stop_inside_iteration", "machine_started", "engage_initial_state"]),
    "C13": _sm("AutonomousStateMachine driven through on_enable/on_iteration/on_disable protocols incl. repeated periods and disabling mid-run; non-trivial = the run ended (done/expiry/disable) with further iterations; distinct = distinct trace shape",
               ["stop_inside_iteration", "on_enable"]),
}
