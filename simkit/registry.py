"""Property registry: which engine decides which property, tier sizes, evidence text."""

REAL_STUB_SM = {
    "real": ["magicbot.state_machine (StateMachine, AutonomousStateMachine, decorators) from the working tree",
             "magicbot.magic_tunable.setup_tunables", "WPILib HAL simulated FPGA clock (paused, stepped by the scheduler)",
             "ntcore local instance (duration / current_state topics)"],
    "simulated": ["the control loop and its timing (seeded scheduler)", "robot code calling engage()/done()/on_disable()",
                  "state-function bodies (generated; perform the plan's in-state actions)", "dashboard writing duration topics",
                  "robot-code restart (new instance, NT values survive)"],
}

ENGINE_TEXT = {
    "sm": "StateMachine / AutonomousStateMachine under a simulated control loop: generated machine classes (real decorators), seeded op+fault plans, paused HAL clock, real ntcore",
}

INTEGRATION_NOTE = "; every 6th run is an integration run: the machine is a component (or the selected autonomous mode) of a generated MagicRobot executed by engine robot, so engage() comes from teleopPeriodic, on_disable() from real mode changes, pacing from the real NotifierDelay and, for autonomous modes, tm from the selector's timer"

def _sm(rule, probes, quick=15000, thorough=400000):
    rule = rule + INTEGRATION_NOTE
    probes = list(probes) + ["integration_runs", "embedded_machine_stops"] + ([] if "AutonomousStateMachine" in rule else ["twin_ops"])
    rule = rule + "; in a fifth of the plain-StateMachine runs a second live machine of the same class is driven by its own history between the first one's calls and must stay untouched"
    return {
        "engine": "sm", "level": "exploration", "rule": rule,
        "level_text": "seeded search over control-loop histories, clock schedules and faults (dropped engage(), external stops, dashboard duration edits incl. negative and NaN values, restarts, slow state functions, state functions that raise and are swallowed by the caller, pauses of days) of generated machines run on the real code; every step compared with an executable reference model written from the property text, plus model-independent history invariants; sampling, not proof",
        "level_note": "trusted: WPILib HAL simulation clock and local ntcore; the reference model and invariants in /verif/models; generated machines cover <=6 states / <=60 iterations (quick tier), <=8 states / <=200 iterations (thorough tier), at most two in-state actions per state-function call, at most two live machines of a class",
        "quick": {"runs": quick, "wall_s": 150}, "thorough": {"runs": thorough, "wall_s": 1500},
        "probes_expected": probes,
        "state_measure": "abstract reference-model states (kind of current state, fresh, executing, request, asm flag) and (state, op, state) transitions, hashed",
        "real_vs_stub": REAL_STUB_SM,
        "assumptions": [
            "single caller thread (the class documents itself as not thread-safe)",
            "one or two in-state actions per state-function call (next_state / next_state_now, for autonomous machines also done()); a state function of a plain machine does nothing more once its own machine stopped in the middle of the call; the default state performs no actions; a state function may raise after acting (the caller swallows it and, for a plain machine, calls engage() again before the next iteration); next_state()/next_state_now()/engage() are not called from outside resp. inside state functions",
            "class layouts: single, base+leaf, base+mixin+leaf, diamond; redefinitions may change must_finish/next_state (not the duration) and move the first-state marker; positional-only parameters; VERBOSE_LOGGING on in a quarter of the runs; an object of the base class may exist first; a dashboard may write the current_state topic",
            "clock = WPILib HAL simulation clock; half of the runs on a 1/64 s grid with exact float comparison, the rest at 1 us with a 1e-9 s tolerance and a 1e-7 s dead band at expiry instants",
        ],
    }

PROPS = {
    "C01": _sm("seeded plans (machine shape + op/fault sequence) generated while stepping the reference model; a run is non-trivial if it contains an iteration without engage() while the machine was executing; distinct = distinct trace shape (sequence of op kinds and per-iteration call roles)",
               ["iteration_without_engage_while_executing", "must_finish_continues_without_engage", "next_state_now_nested", "default_state_ran", "stop_inside_iteration"]),
    "C02": _sm("as C01 with timed-state-heavy machines, full signatures, continuous engagement and clock steps aimed on / one tick around expiry instants; non-trivial = at least one expiry-driven hand-over or cycle restart; distinct = distinct trace shape",
               ["expiry_handover", "cycle_restart", "entry_with_state_tm_gt_0"]),
    "C03": _sm("as C01 with all 16 ordered parameter subsets spread over the states; non-trivial = at least two entries and one consecutive call; distinct = distinct trace shape",
               ["entries", "repeat_calls", "cycle_restart", "default_state_ran"]),
    "C04": _sm("as C01 with stop causes (external done/on_disable, engage withdrawn, last state expired, in-state done) at arbitrary points followed by re-engagement; non-trivial = a stop of a running machine and at least two machine starts; distinct = distinct trace shape",
               ["stop_inside_iteration", "machine_started", "engage_initial_state"]),
    "C13": _sm("AutonomousStateMachine driven through on_enable/on_iteration/on_disable protocols incl. repeated periods and disabling mid-run; non-trivial = the run ended (done/expiry/disable) with further iterations; distinct = distinct trace shape",
               ["stop_inside_iteration", "on_enable"]),
}

REAL_STUB_ROBOT = {
    "real": ["magicbot.MagicRobot.startCompetition and everything it calls (mode switching, injection, tunables, feedbacks, will_reset_to, SimpleWatchdog)",
             "robotpy_ext.autonomous.AutonomousModeSelector on a real package directory", "robotpy_ext.misc.NotifierDelay on the real HAL notifier",
             "WPILib HAL simulation (clock, notifier alarms, driver-station data), ntcore local instance, SmartDashboard, SendableChooser"],
    "simulated": ["driver station (control words via DriverStationSim at scheduler-chosen call sites)", "whoever wakes a sleeping notifier (scheduler advances the paused clock)",
                  "the user's robot, components, autonomous modes (generated; every callback is a yield point)", "dashboard writing 'Auto Selector'", "endCompetition() caller"],
}
ENGINE_TEXT["robot"] = "whole MagicRobot lifetime on the main thread with hal.waitForNotifierAlarm inverted into the scheduler; generated robot/components/modes; DS packets, stalls, late wake-ups, raising callbacks, shutdown at arbitrary call sites; also executes the integration runs of C01-C04, C13, C15 (machine embedded in a robot) and C19 (the robot's loop watchdog)"

def _robot(rule, probes, level_text, quick=8000, thorough=200000, level="exploration"):
    return {
        "engine": "robot", "level": level, "rule": rule,
        "level_text": level_text,
        "level_note": "trusted: WPILib HAL simulation (clock, notifiers, DS data) and local ntcore; the reference model/invariants in /verif/models; <=5 components, <=3 autonomous modes, <=45 loop iterations per lifetime (quick tier), <=100 (thorough tier)",
        "quick": {"runs": quick, "wall_s": 150}, "thorough": {"runs": thorough, "wall_s": 1500},
        "probes_expected": probes,
        "state_measure": "(mode shown in /robot/mode, callback role) pairs and their successions along the expected log, hashed",
        "real_vs_stub": REAL_STUB_ROBOT,
        "assumptions": ["single robot thread (in a tenth of the runs an earlier robot object was constructed and robotInit()-ed in the same process before the one observed); driver-station packets carry one of disabled/teleop/auto/test (never auto+test together)",
                        "events inside feedback getters are limited to raising", "autonomous mode chosen by DEFAULT flag, the 'Auto Selector' string or a dashboard chooser selection (effective at the next SmartDashboard update in robotPeriodic)"],
    }

_ROBOT_LT = "seeded search over whole robot lifetimes: driver-station packets at any wake-up or inside any callback, slow callbacks, late wake-ups, shutdown anywhere, raising callbacks; the observed callback log, clock, /robot/mode, attribute values and NetworkTables entries are compared with an executable model of the mode-switching contract and with model-independent invariants; sampling, not proof"
PROPS.update({
    "C05": _robot("seeded robot layouts + event tables; non-trivial = at least 2 components and 2 different modes with iterations; distinct = distinct expected callback-role sequence",
                  ["session_auto", "session_teleop", "session_test", "session_disabled", "enabled_to_enabled_switch"], _ROBOT_LT),
    "C06": _robot("as C05, lifecycle-heavy layouts; non-trivial = a direct enabled->enabled switch or a zero/one-iteration session; distinct = distinct expected callback-role sequence",
                  ["zero_iteration_session", "one_iteration_session", "enabled_to_enabled_switch", "test_to_enabled_switch", "ended_by_endCompetition_event"], _ROBOT_LT),
    "C07": _robot("systematic part: the full product of 3 fixed robot layouts x every call site of the property's list (component on_enable/on_disable/execute, mode init/periodic hooks incl. robotPeriodic and teleopPeriodic-in-autonomous, feedback getters, autonomous mode on_enable/on_iteration/on_disable) x 6 mode schedules (teleop, auto, test, disabled, teleop->auto->test->teleop tour, auto ended by endCompetition) x fault at first / third / every visit x FMS attached / not = 1980 cases (thorough tier runs all of them first, quick tier a 1000-case stride sample); then seeded random robots with 1-3 simultaneous faulty sites, FMS flips, stalls and packets inside callbacks; non-trivial = a fault fired at a reached site; distinct = distinct enumeration case, or distinct expected callback-role sequence for random runs",
                  ["faults_swallowed_run", "exception_left_robot_program", "enumerated_cases_fault_reached"],
                  "fault enumeration over the product of call site x mode schedule x visit x FMS state on fixed layouts, followed by seeded random multi-fault lifetimes; oracle: with the FMS attached the observed callback log equals the expected log in which every other callback still runs in order and the loop keeps iterating, without the FMS the injected exception object leaves startCompetition() at exactly that call; enumeration is complete over the stated product only, the rest is sampling",
                  level="fault_enumeration"),
    "C10": _robot("as C05 plus assignments to marked/unmarked attributes from teleopPeriodic / mode / components and raising callbacks; non-trivial = enabled iterations with markers present; distinct = distinct expected callback-role sequence",
                  ["iterations"], _ROBOT_LT),
    "C11": _robot("as C05 with feedback-heavy layouts and raising getters; non-trivial = feedbacks present and at least 2 modes with iterations; distinct = distinct expected callback-role sequence",
                  ["iterations"], _ROBOT_LT),
})

ENGINE_TEXT["sa"] = "StatefulAutonomous under simulated autonomous periods: generated mode classes, seeded tm sequences, dashboard edits, repeated periods, second instance"
PROPS["C15"] = {
    "engine": "sa", "level": "exploration",
    "rule": "seeded mode definitions (chains/loops/branches, 16 signatures, registered variables) and per-period tm sequences aimed at expiry instants, dashboard edits between and during periods, 1-4 periods, sequential second instance; non-trivial = a state is entered in a second or later period or a state is re-entered; distinct = distinct trace shape" + INTEGRATION_NOTE,
    "level_text": "seeded search over autonomous-period histories on the real StatefulAutonomous with real NetworkTables values; every on_iteration compared with a reference model written from the property text plus model-independent history invariants; sampling, not proof",
    "level_note": "trusted: local ntcore; reference model/invariants in /verif; <=5 states, <=100 iterations per period, <=4 periods; iterations only between on_enable and on_disable (the selector's protocol); two instances never interleaved",
    "quick": {"runs": 15000, "wall_s": 150}, "thorough": {"runs": 400000, "wall_s": 1500},
    "probes_expected": ["expiry_handover", "entries_in_later_period", "entry_with_state_tm_gt_0", "next_state_to_self", "idle_iteration_after_end", "integration_runs"],
    "state_measure": "abstract model states (kind of current state, fresh, enabled) and (state, op, state) transitions, hashed",
    "real_vs_stub": {"real": ["robotpy_ext.autonomous.stateful_autonomous from the working tree", "ntcore local instance (SmartDashboard table)", "HAL simulated clock"],
                     "simulated": ["the autonomous loop supplying tm", "dashboard edits", "state-function bodies (generated)"]},
    "assumptions": ["single thread", "one in-state action per call; a state function may raise after acting (the caller swallows it)", "tm strictly increasing inside a period"],
}

ENGINE_TEXT["timers"] = "NotifierDelay on the real HAL notifier with the wake-up source replaced by the scheduler; Toggle/ButtonDebouncer/PeriodicFilter/SimpleWatchdog under seeded (advance, input, accessor) histories on the paused clock"
PROPS["C16"] = {
    "engine": "timers", "level": "exploration",
    "rule": "seeded periods (>= 1 ms, incl. values whose microsecond conversion truncates) and loop-body durations shorter than / equal to / several times the period, late wake-ups, free()/with-exit/double free at random points followed by more wait() calls; non-trivial = an overrun followed by a wait that sleeps again (catch-up observed); distinct = distinct sequence of (op, sleep/exact/overrun class)",
    "level_text": "seeded search over loop-timing schedules on the real HAL notifier; every wait() checked against the t0 + k*P grid exactly in integer microseconds; sampling, not proof",
    "level_note": "trusted: WPILib HAL simulation notifier implementation; the period is read at the HAL's 1 us resolution (any fixed integer p with |p - P*1e6| < 1); at most two NotifierDelays alive at a time (a released one stays referenced and may still be waited on); clock up to 126 days from boot, up to 2500 waits on one delay, loop stalls up to a day",
    "quick": {"runs": 15000, "wall_s": 150}, "thorough": {"runs": 400000, "wall_s": 1500},
    "probes_expected": ["wait_slept", "wait_exact", "wait_overrun", "caught_up_after_overrun", "wait_after_free", "freed_by_exit", "freed_by_free_twice", "entered_later", "stale_wait_on_released_instance"],
    "state_measure": "(op, wait class) pairs and their successions, hashed",
    "real_vs_stub": {"real": ["robotpy_ext.misc.precise_delay.NotifierDelay", "HAL notifier bookkeeping (initialize/update/wait/stop/clean)", "HAL simulated clock"],
                     "simulated": ["the loop body durations", "who advances time while the loop sleeps (hal.waitForNotifierAlarm seam; per-handle alarms read through a wrapped hal.updateNotifierAlarm)", "late wake-ups", "a user-installed RobotController time source (frozen / 3 s ahead) in a tenth of the runs"]},
    "assumptions": ["single thread", "wake-ups are never early (the real HAL wait only returns once the clock reached the alarm)"],
}
PROPS["C19"] = {
    "engine": "timers", "level": "exploration",
    "rule": "seeded (clock advance, button level / log level / watchdog call, accessor) histories with advances on, one tick before and after the period; one of Toggle, Toggle+debounce, ButtonDebouncer (+set_debounce_period), PeriodicFilter, SimpleWatchdog per run; non-trivial = at least two toggles / Trues / passed records, or a warning plus two expiry queries; distinct = distinct (input, outcome) sequence",
    "level_text": "seeded search over sampling histories on the paused HAL clock, each sample checked against the property's sentences (edge-triggered toggle, on == not off, debounce spacing, bypass level, expiry iff elapsed > timeout, warning rate); sampling, not proof",
    "level_note": "trusted: HAL simulated clock; time.monotonic in periodic_filter replaced by a shim onto it; exact comparison on 1/64 s grid runs, 1e-7 s dead band at boundaries on microsecond runs",
    "quick": {"runs": 15000, "wall_s": 150}, "thorough": {"runs": 400000, "wall_s": 1500},
    "probes_expected": ["kind_toggle", "kind_toggle_db", "kind_debouncer", "kind_pfilter", "kind_watchdog", "toggle_changes", "debounced_second_change",
                        "debouncer_true", "debouncer_suppressed", "pfilter_low_passed", "pfilter_low_blocked", "watchdog_warning", "watchdog_warning_rate_limited",
                        "watchdog_expired_True", "watchdog_expired_False"],
    "state_measure": "(input, outcome) pairs and their successions, hashed",
    "real_vs_stub": {"real": ["robotpy_ext.control.toggle.Toggle", "robotpy_ext.control.button_debouncer.ButtonDebouncer", "robotpy_ext.misc.periodic_filter.PeriodicFilter", "robotpy_ext.misc.simple_watchdog.SimpleWatchdog", "HAL simulated clock", "logging"],
                     "simulated": ["joystick (plain object with getRawButton; in some runs it samples the same Toggle while being read, in some it also has wpilib's getRawButtonPressed latch and is tapped between samples)", "a user-installed RobotController time source (frozen / 3 s ahead) in a tenth of the runs", "several logger names through one PeriodicFilter", "time.monotonic (shim onto the simulated clock)", "callers and their timing"]},
    "assumptions": ["single thread", "ButtonDebouncer: before its first True the 'last True' is taken as boot (clock 0)", "SimpleWatchdog checked only after its first reset/enable/setTimeout"],
}

ENGINE_TEXT["nt"] = "tunable owners (generated classes, several instances/prefixes) against in-process NetworkTables clients on the real local ntcore instance: interleaved writes/reads from both sides, pre-existing values, restart with NT surviving"
PROPS["C09"] = {
    "engine": "nt", "level": "exploration",
    "rule": "seeded owner classes (inheritance, every supported tunable kind incl. bytes, structs, arrays, type-hinted empty sequences, subtables, writeDefault on/off), 1-3 instances under components/autonomous/no prefix, values present before setup, then interleaved python-side and client-side writes/reads and restarts; after every write every attribute of every instance is read from both sides; every 8th run lets a real MagicRobot.robotInit() create and bind the owners (components by annotation, the robot class itself, an autonomous mode found by the selector) instead of calling setup_tunables directly; non-trivial = both sides wrote the same topic; distinct = distinct sequence of (op, kind)",
    "level_text": "seeded search over interleavings of robot-code and NetworkTables-client accesses on the real ntcore local instance with a key->value reference map as oracle, plus topic name/type checks at every (re)setup; sampling, not proof",
    "level_note": "trusted: ntcore local instance (no network transport; client = second set of handles in the same process); struct types Rotation2d/Translation2d stand for all WPIStruct types",
    "quick": {"runs": 9000, "wall_s": 150}, "thorough": {"runs": 300000, "wall_s": 1500},
    "probes_expected": ["both_sides_wrote_same_topic", "default_overwrote_existing", "existing_value_preserved", "multi_instance_runs", "python_writes", "client_writes", "framework_setup_runs"],
    "state_measure": "(op, tunable kind, writeDefault, subtable, owner prefix) combinations exercised, hashed (no transition measure)",
    "real_vs_stub": {"real": ["magicbot.magic_tunable (tunable, setup_tunables)", "ntcore local instance, typed topics, struct serialisation"],
                     "simulated": ["dashboard / NT client (in-process typed publishers and subscribers)", "robot-code restart (new instance bound to the same name)"]},
    "assumptions": ["single thread; local NetworkTables only", "client writes use the topic's own type", "struct values are compared component by component, exactly (not with wpimath's tolerant ==)"],
}

ENGINE_TEXT["sel"] = "AutonomousModeSelector on a real generated package directory (faulty modules/constructors, duplicates, flags, permuted listing order, FMS on/off), driven through start/periodic/disable and run() periods with dashboard selections in between"
PROPS["C14"] = {
    "engine": "sel", "level": "exploration",
    "rule": "seeded package layouts (0-4 modules x 0-3 classes, MODE_NAME/DISABLED/DEFAULT flags, helper classes, duplicate names, several defaults, 4 kinds of import failure, raising constructors, missing package, namespace package, dotted package name), FMS attached or not, permuted directory listing; then seeded start/periodic/disable sequences with stray calls and run() periods ended by the driver station or endCompetition, with chooser / 'Auto Selector' writes between and during periods; non-trivial = a period with an active mode among >= 2 healthy modes, or a discovery fault; distinct = distinct (discovery outcome, op, active?) sequence",
    "level_text": "seeded search over package layouts, discovery faults and call/selection histories on the real selector, SendableChooser, SmartDashboard and HAL notifier; discovery and every delivered callback checked against the property's sentences; sampling, not proof",
    "level_note": "trusted: importlib on real files in a per-run scratch directory, WPILib SendableChooser/SmartDashboard, HAL simulation; mode callbacks never raise here (that is C07's); periodic() before the first start() is outside the quantifier",
    "quick": {"runs": 8000, "wall_s": 150}, "thorough": {"runs": 200000, "wall_s": 1500},
    "probes_expected": ["startup_raised_as_required", "startup_tolerated_faults_under_fms", "period_with_mode", "period_without_mode", "run_period_with_mode", "zero_iteration_run",
                        "stray_periodic_while_inactive", "stray_disable_while_inactive", "start_without_disable"],
    "state_measure": "(op, mode active?, started before?) states and their successions, hashed",
    "real_vs_stub": {"real": ["robotpy_ext.autonomous.selector.AutonomousModeSelector", "importlib/inspect on real module files", "wpilib SendableChooser + SmartDashboard + ntcore", "NotifierDelay + HAL notifier (run())"],
                     "simulated": ["the autonomous package contents (generated)", "directory listing order (selector.glob permuted)", "driver station, FMS flag", "dashboard selections", "who wakes the notifier"]},
    "assumptions": ["single thread", "selections name a unique mode, 'None' or an unknown string"],
}
