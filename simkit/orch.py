"""Orchestrator: spawns workers, merges their results, confirms / minimises /
replays violations, writes evidence.  Never imports wpilib."""
import importlib
import json
import math
import os
import shutil
import subprocess
import sys
import tempfile
import time

from . import util

VERIF = os.path.dirname(os.path.dirname(os.path.abspath(__file__)))
PY = sys.executable
WORKER = os.path.join(VERIF, "simkit", "worker.py")
KNOWN = os.path.join(VERIF, "known_findings.txt")
REPLAYS = os.environ.get("VERIF_REPLAY_DIR") or os.path.join(VERIF, "replays")
EVIDENCE = os.environ.get("VERIF_EVIDENCE_DIR") or os.path.join(VERIF, "evidence")


def worker_env():
    env = dict(os.environ)
    env["PYTHONHASHSEED"] = os.environ.get("VERIF_HASHSEED", "0")
    env["PYTHONDONTWRITEBYTECODE"] = "1"
    env.pop("PYTHONPATH", None)
    return env


def make_scratch():
    base = "/dev/shm" if os.path.isdir("/dev/shm") and os.access("/dev/shm", os.W_OK) else tempfile.gettempdir()
    return tempfile.mkdtemp(prefix="verif-sim-", dir=base)


def load_engine(name):
    return importlib.import_module("engines." + name)


# ---------------------------------------------------------------- batches

def run_batch(engine, prop, tier, base_seed, runs, workers, wall_s, scratch, digests=False, order=None):
    procs = []
    for w in range(workers):
        job = {"engine": engine, "prop": prop, "tier": tier, "base_seed": base_seed,
               "start": w, "stride": workers, "count": runs, "wall_s": wall_s, "digests": digests}
        jf = os.path.join(scratch, f"job-{prop}-{w}.json")
        with open(jf, "w") as f:
            json.dump(job, f)
        wd = os.path.join(scratch, f"w{w}")
        os.makedirs(wd, exist_ok=True)
        p = subprocess.Popen([PY, WORKER, "batch", jf], cwd=wd, env=worker_env(),
                             stdout=subprocess.DEVNULL, stderr=subprocess.PIPE)
        procs.append((p, jf))
    merged = {"runs": 0, "ok": 0, "inconclusive": 0, "violation": 0, "error": 0, "timeout": 0,
              "probes": {}, "faults": {}, "sim_us": 0, "nontrivial": 0,
              "shapes": set(), "shapes_nt": set(), "states": set(), "trans": set(),
              "violations": [], "errors": [], "samples": [], "digests": {}, "stopped_early": False,
              "worker_failures": []}
    for p, jf in procs:
        try:
            _, err = p.communicate(timeout=wall_s + 600)
        except subprocess.TimeoutExpired:
            p.kill()
            _, err = p.communicate()
            merged["worker_failures"].append("worker wall timeout")
            continue
        outf = jf + ".out.json"
        if p.returncode != 0 or not os.path.exists(outf):
            merged["worker_failures"].append(f"worker rc={p.returncode}: {err.decode(errors='replace')[-1500:]}")
            continue
        a = json.load(open(outf))
        for k in ("runs", "ok", "inconclusive", "violation", "error", "timeout", "sim_us", "nontrivial"):
            merged[k] += a.get(k, 0)
        for k in ("probes", "faults"):
            for kk, v in a[k].items():
                merged[k][kk] = merged[k].get(kk, 0) + v
        for k in ("shapes", "shapes_nt", "states", "trans"):
            merged[k].update(a[k])
        merged["violations"] += a["violations"]
        merged["errors"] += a["errors"]
        merged["samples"] += a["samples"]
        merged["digests"].update(a["digests"])
        merged["stopped_early"] |= a["stopped_early"]
    merged["violations"].sort(key=lambda v: v["index"])
    merged["errors"].sort(key=lambda v: v["index"])
    merged["samples"].sort(key=lambda v: v["index"])
    return merged


def fresh_exec(plan, scratch, trace=False):
    """Run one plan in a brand-new interpreter (no fork)."""
    pf = os.path.join(scratch, f"plan-{util.digest(plan)}.json")
    with open(pf, "w") as f:
        json.dump(plan, f)
    wd = os.path.join(scratch, "fresh")
    os.makedirs(wd, exist_ok=True)
    args = [PY, WORKER, "exec", pf] + (["--trace"] if trace else [])
    try:
        r = subprocess.run(args, cwd=wd, env=worker_env(), stdout=subprocess.PIPE, stderr=subprocess.PIPE, timeout=180)
    except subprocess.TimeoutExpired:
        return {"status": "timeout"}
    lines = [l for l in r.stdout.decode(errors="replace").splitlines() if l.startswith("{")]
    if not lines:
        return {"status": "error", "error": "no result; stderr: " + r.stderr.decode(errors="replace")[-1500:]}
    return json.loads(lines[-1])


class Server:
    """A serve-mode worker: executes candidate plans (one fork each) during minimisation."""

    def __init__(self, engine, scratch):
        wd = os.path.join(scratch, "serve")
        os.makedirs(wd, exist_ok=True)
        self.p = subprocess.Popen([PY, WORKER, "serve", engine], cwd=wd, env=worker_env(),
                                  stdin=subprocess.PIPE, stdout=subprocess.PIPE, stderr=subprocess.DEVNULL)

    def run(self, plan, trace=False):
        self.p.stdin.write((util.cjson({"plan": plan, "trace": trace}) + "\n").encode())
        self.p.stdin.flush()
        line = self.p.stdout.readline()
        if not line:
            return {"status": "error", "error": "serve worker died"}
        return json.loads(line)

    def close(self):
        try:
            self.p.stdin.close()
            self.p.wait(timeout=10)
        except Exception:
            self.p.kill()


# ---------------------------------------------------------------- minimisation

def same_failure(res, prop, sig):
    return res.get("status") == "violation" and res["violation"]["prop"] == prop and res["violation"]["sig"] == sig


def ddmin(items, test, budget):
    n = 2
    items = list(items)
    while len(items) >= 2 and budget[0] > 0:
        chunk = math.ceil(len(items) / n)
        reduced = False
        for i in range(0, len(items), chunk):
            cand = items[:i] + items[i + chunk:]
            budget[0] -= 1
            if test(cand):
                items = cand
                n = max(n - 1, 2)
                reduced = True
                break
            if budget[0] <= 0:
                break
        if not reduced:
            if n >= len(items):
                break
            n = min(n * 2, len(items))
    if len(items) == 1 and budget[0] > 0:
        budget[0] -= 1
        if test([]):
            items = []
    return items


def minimise(engine_name, plan, violation, scratch, max_candidates=1500, wall_s=240):
    engine_name = plan.get("engine", engine_name)
    engine = load_engine(engine_name)
    prop, sig = violation["prop"], violation["sig"]
    srv = Server(engine_name, scratch)
    t_end = time.monotonic() + wall_s
    budget = [max_candidates]
    stats = {"candidates": 0, "ops_before": len(plan.get("ops", [])), "digest_before": util.digest(plan)}
    try:
        def fails(p):
            if time.monotonic() > t_end:
                budget[0] = 0
                return False
            stats["candidates"] += 1
            return same_failure(srv.run(p), prop, sig)

        cur = plan
        changed = True
        rounds = 0
        while changed and budget[0] > 0 and rounds < 6:
            rounds += 1
            changed = False
            ops = ddmin(cur["ops"], lambda o: fails(dict(cur, ops=o)), budget)
            if len(ops) < len(cur["ops"]):
                cur = dict(cur, ops=ops)
                changed = True
            simplify = getattr(engine, "simplify", None)
            if simplify is not None:
                progress = True
                while progress and budget[0] > 0:
                    progress = False
                    for cand in simplify(cur):
                        budget[0] -= 1
                        if budget[0] <= 0:
                            break
                        if util.digest(cand) != util.digest(cur) and fails(cand):
                            cur = cand
                            progress = True
                            changed = True
                            break
        stats["ops_after"] = len(cur.get("ops", []))
        stats["rounds"] = rounds
        return cur, stats
    finally:
        srv.close()


# ---------------------------------------------------------------- known findings

def load_known():
    """Lines:  open: property=C0x sig=<signature> <text>      (suppresses that signature only)
               fixed: property=C0x <commit> <text>             (history, suppresses nothing)"""
    known = []
    if os.path.exists(KNOWN):
        for line in open(KNOWN):
            line = line.strip()
            if line.startswith("open:"):
                parts = line[5:].split()
                d = {"text": line}
                for p in parts:
                    if p.startswith("property="):
                        d["prop"] = p[9:]
                    elif p.startswith("sig="):
                        d["sig"] = p[4:]
                if "prop" in d and "sig" in d:
                    known.append(d)
    return known


# ---------------------------------------------------------------- the check driver

def run_check(prop, spec, tier, base_seed, runs=None, workers=None, wall_s=None):
    t0 = time.monotonic()
    engine_name = spec["engine"]
    tcfg = spec[tier]
    runs = int(os.environ.get("VERIF_RUNS", runs or tcfg["runs"]))
    wall_s = float(os.environ.get("VERIF_BUDGET_S", wall_s or tcfg["wall_s"]))
    workers = int(os.environ.get("VERIF_WORKERS", workers or min(16, os.cpu_count() or 4)))
    workers = max(1, min(workers, runs))
    scratch = make_scratch()
    rc = 0
    out_lines = []
    try:
        print(f"check {prop} tier={tier} VERIF_SEED={base_seed} engine={engine_name} runs={runs} workers={workers} "
              f"wall_cap={wall_s:.0f}s repo={os.environ.get('VERIF_REPO', '/repo')}", flush=True)
        m = run_batch(engine_name, prop, tier, base_seed, runs, workers, wall_s, scratch)
        wall_batch = time.monotonic() - t0
        harness_problems = list(m["worker_failures"])
        # errors / timeouts: retry in a fresh interpreter
        retried_ok = 0
        hang_violations = []
        for e in m["errors"]:
            r = fresh_exec(e["plan"], scratch)
            if r.get("status") in ("ok", "inconclusive"):
                retried_ok += 1
            elif r.get("status") == "violation":
                m["violations"].append({"index": e["index"], "seed": e["seed"], "plan": e["plan"], "violation": r["violation"]})
            elif r.get("status") == "timeout" and e["status"] == "timeout":
                hang_violations.append(e)
            else:
                harness_problems.append(f"run {e['index']} seed {e['seed']}: {e['status']}: {r.get('error') or e.get('error')}")
        n_unretried = (m["error"] + m["timeout"]) - len(m["errors"])
        if n_unretried > 0:
            harness_problems.append(f"{n_unretried} further error/timeout runs not retried")
        for e in hang_violations:
            v = {"prop": prop, "rule": "hang", "sig": "hang", "msg": "run does not terminate within the time-out (reproduced in a fresh interpreter)", "at": None}
            m["violations"].append({"index": e["index"], "seed": e["seed"], "plan": e["plan"], "violation": v, "hang": True})

        known = load_known()
        reported = []   # (violation, replay path)
        known_hits = {}
        seen_sigs = set()
        irreproducible = 0
        for v in m["violations"]:
            sig = v["violation"]["sig"]
            if sig in seen_sigs:
                continue
            seen_sigs.add(sig)
            kf = [k for k in known if k["prop"] == prop and k["sig"] == sig]
            if kf:
                known_hits[sig] = kf[0]["text"]
                continue
            plan = v["plan"]
            if not v.get("hang"):
                r = fresh_exec(plan, scratch)
                if not same_failure(r, prop, sig):
                    irreproducible += 1
                    harness_problems.append(f"violation {sig} at run {v['index']} did not reproduce in a fresh interpreter ({r.get('status')})")
                    continue
                small, mstats = minimise(engine_name, plan, v["violation"], scratch)
                r2 = fresh_exec(small, scratch, trace=True)
                if not same_failure(r2, prop, sig):
                    small, r2 = plan, fresh_exec(plan, scratch, trace=True)
                    mstats["note"] = "minimised plan did not replay in a fresh interpreter; original kept"
            else:
                small, mstats, r2 = plan, {"note": "hang: not minimised"}, {"violation": v["violation"]}
            os.makedirs(REPLAYS, exist_ok=True)
            small = dict(small)
            small["violation"] = r2.get("violation", v["violation"])
            small["minimisation"] = mstats
            small["found"] = {"base_seed": base_seed, "index": v["index"], "run_seed": v["seed"], "tier": tier}
            path = os.path.join(REPLAYS, f"{prop}-{v['seed']}-{util.digest(small['ops'] if 'ops' in small else small)}.json")
            with open(path, "w") as f:
                json.dump(small, f, indent=1, sort_keys=True)
            reported.append((small["violation"], path))

        for sig, text in sorted(known_hits.items()):
            out_lines.append(f"KNOWN-FINDING: property={prop} {text}")
        for viol, path in reported:
            out_lines.append(f"VIOLATION property={prop} replay={path}")
            out_lines.append(f"  rule={viol['rule']} sig={viol['sig']}: {viol['msg']}")
        if reported:
            rc = 1
        elif harness_problems:
            rc = 2
        wall = time.monotonic() - t0
        ev = build_evidence(prop, spec, tier, base_seed, m, wall, wall_batch, workers, len(reported), retried_ok,
                            harness_problems, known_hits)
        os.makedirs(EVIDENCE, exist_ok=True)
        with open(os.path.join(EVIDENCE, f"{prop}.json"), "w") as f:
            json.dump(_strict_json(ev), f, indent=1, sort_keys=True, allow_nan=False)
        cov = ev["coverage"]
        print(f"  runs={m['runs']} ok={m['ok']} inconclusive={m['inconclusive']} violations={m['violation']} "
              f"errors={m['error']} timeouts={m['timeout']} retried_ok={retried_ok} "
              f"distinct_nontrivial={cov['distinct_nontrivial']} states={cov['states']} transitions={cov['transitions']} "
              f"sim_s={cov['simulated_seconds']:.0f} runs/h={cov['runs_per_hour']:.0f} wall={wall:.1f}s", flush=True)
        if m["stopped_early"]:
            print("  note: wall-clock cap reached before the planned number of runs", flush=True)
        zero = [k for k in spec.get("probes_expected", []) if not m["probes"].get(k)]
        if zero:
            print("  note: probes at zero in this run: " + ", ".join(zero), flush=True)
        for h in harness_problems:
            print("HARNESS: " + h, flush=True)
        for l in out_lines:
            print(l, flush=True)
        print(f"result {prop}: " + ("VIOLATION" if rc == 1 else "HARNESS-ERROR" if rc == 2 else "held on everything explored"), flush=True)
        return rc
    finally:
        shutil.rmtree(scratch, ignore_errors=True)


def _strict_json(o):
    """Evidence files are strict JSON: non-finite floats (a sampled plan may hold a NaN duration) become strings."""
    if isinstance(o, float) and (o != o or o in (float("inf"), float("-inf"))):
        return "NaN" if o != o else ("Infinity" if o > 0 else "-Infinity")
    if isinstance(o, dict):
        return {k: _strict_json(v) for k, v in o.items()}
    if isinstance(o, (list, tuple)):
        return [_strict_json(v) for v in o]
    return o


def build_evidence(prop, spec, tier, base_seed, m, wall, wall_batch, workers, n_reported, retried_ok, harness_problems, known_hits):
    samples = [{"run_index": s["index"], "run_seed": s["seed"], "config": s["plan"].get("config"),
                "ops": s["plan"].get("ops", [])[:60]} for s in m["samples"][:3]]
    if not samples:
        samples = [{"note": "no non-trivial run in this batch"}]
    level = spec.get("level", "exploration")
    cov = {
        "evaluations": m["runs"],
        "distinct_nontrivial": len(m["shapes_nt"]),
        "rule": spec["rule"],
        "samples": samples,
        "states": len(m["states"]),
        "transitions": len(m["trans"]),
        "distinct_trace_shapes": len(m["shapes"]),
        "nontrivial_runs": m["nontrivial"],
        "statuses": {k: m[k] for k in ("ok", "inconclusive", "violation", "error", "timeout")},
        "retried_ok_in_fresh_interpreter": retried_ok,
        "faults_fired": dict(sorted(m["faults"].items())),
        "probes": dict(sorted(m["probes"].items())),
        "probes_at_zero": [k for k in spec.get("probes_expected", []) if not m["probes"].get(k)],
        "simulated_seconds": m["sim_us"] / 1e6,
        "runs_per_hour": m["runs"] / max(wall_batch, 1e-6) * 3600,
        "workers": workers,
        "stopped_early_on_wall_cap": m["stopped_early"],
        "known_findings_hit": sorted(known_hits),
        "harness_problems": harness_problems,
        "state_measure": spec.get("state_measure", "abstract reference-model states / transitions visited (hashed)"),
        "real_vs_stub": spec.get("real_vs_stub", {}),
        "exhaustive": False,
    }
    return {
        "property_id": prop, "tier": tier, "seed": base_seed, "level": level, "coverage": cov,
        "assumptions": spec.get("assumptions", []), "wall_s": round(wall, 2), "violations": n_reported,
    }


def replay(path):
    scratch = make_scratch()
    try:
        plan = json.load(open(path))
        expect = plan.get("violation")
        r = fresh_exec(plan, scratch, trace=True)
        for line in r.get("trace", []):
            print(line)
        if r.get("status") == "violation":
            v = r["violation"]
            print(f"VIOLATION property={v['prop']} replay={os.path.abspath(path)}")
            print(f"  rule={v['rule']} sig={v['sig']}: {v['msg']}")
            if expect and expect.get("sig") != v["sig"]:
                print(f"  note: recorded signature was {expect.get('sig')}")
            return 1
        if r.get("status") in ("ok", "inconclusive"):
            print(f"replay: no violation ({r.get('status')})")
            return 0
        print(f"HARNESS: replay status {r.get('status')}: {r.get('error')}")
        return 2
    finally:
        shutil.rmtree(scratch, ignore_errors=True)
