"""The simulated world: the real WPILib HAL simulation back end with its clock
paused and owned by the scheduler.  Imported only inside worker processes.

boot() is called once per worker (before any fork); everything else is called
inside the forked child that executes one plan.
"""
import logging
import os
import sys
import threading

_booted = False
hal = hs = wpilib = ntcore = None


def repo_path() -> str:
    return os.environ.get("VERIF_REPO", "/repo")


def boot():
    """Import the code under test from the working tree, pause and zero the clock."""
    global _booted, hal, hs, wpilib, ntcore
    if _booted:
        return
    repo = repo_path()
    sys.path.insert(0, repo)
    import hal as _hal
    import hal.simulation as _hs
    import wpilib as _wpilib
    import wpilib.simulation  # noqa: F401
    import ntcore as _ntcore
    import magicbot  # noqa: F401
    import robotpy_ext.autonomous  # noqa: F401
    import robotpy_ext.misc.periodic_filter  # noqa: F401
    import robotpy_ext.control.toggle  # noqa: F401
    import robotpy_ext.control.button_debouncer  # noqa: F401

    hal, hs, wpilib, ntcore = _hal, _hs, _wpilib, _ntcore
    got = os.path.realpath(os.path.dirname(os.path.dirname(magicbot.__file__)))
    if got != os.path.realpath(repo):
        raise RuntimeError(f"magicbot imported from {got}, expected {repo}")
    import robotpy_ext
    got = os.path.realpath(os.path.dirname(os.path.dirname(robotpy_ext.__file__)))
    if got != os.path.realpath(repo):
        raise RuntimeError(f"robotpy_ext imported from {got}, expected {repo}")

    # The seams are module attributes that the library looks up at call time (hal.waitForNotifierAlarm, ...,
    # periodic_filter.time).  A library module that binds one of these functions at import time (`from hal import
    # waitForNotifierAlarm`) would be out of the simulator's reach: its waits would block in real time and the runs would
    # look like hangs.  Refuse to run in that case (harness error, exit 2) rather than report anything about such a tree.
    import time as _time
    direct = {id(getattr(_hal, n)): "hal." + n for n in ("waitForNotifierAlarm", "initializeNotifier", "cleanNotifier", "updateNotifierAlarm")
              if hasattr(_hal, n)}
    direct[id(_time.monotonic)] = "time.monotonic"
    root = os.path.realpath(repo) + os.sep
    for mname, mod in list(sys.modules.items()):
        mfile = getattr(mod, "__file__", None)
        if mfile and os.path.realpath(mfile).startswith(root):
            for k, v in list(vars(mod).items()):
                if id(v) in direct:
                    raise RuntimeError(f"{mname}.{k} is bound to {direct[id(v)]} at import time: the simulator's seam "
                                       "(a module attribute looked up at call time) cannot reach it")

    hs.pauseTiming()
    hs.restartTiming()  # clock := 0 while paused (before any NT activity)
    if not hs.isTimingPaused() or wpilib.RobotController.getFPGATime() != 0:
        raise RuntimeError("could not pause/zero the simulated FPGA clock")
    # fork-per-run is only safe in a single-threaded image
    nthreads = len(os.listdir("/proc/self/task"))
    if nthreads != 1 or threading.active_count() != 1:
        raise RuntimeError(f"worker image has {nthreads} threads after imports; fork per run unsafe")
    # no lastResort handler output; handlers are attached explicitly where an oracle needs them
    logging.getLogger().addHandler(logging.NullHandler())
    logging.getLogger().setLevel(logging.DEBUG)
    _booted = True


def now_us() -> int:
    return wpilib.RobotController.getFPGATime()


def advance(us: int):
    if us > 0:
        hs.stepTimingAsync(int(us))


def goto(us: int):
    d = int(us) - now_us()
    if d > 0:
        hs.stepTimingAsync(d)


class SimClock:
    """Counts simulated time actually covered by a run."""

    def __init__(self):
        self.t0 = now_us()

    def covered(self):
        return now_us() - self.t0
