#!/venv/bin/python
"""Worker process: imports WPILib + the code under test once, then forks one
child per simulated run.

    worker.py selfcheck
    worker.py batch  <jobfile.json>      -> writes <jobfile>.out.json
    worker.py serve  <engine>            -> stdin: one plan JSON per line, stdout: one result per line
    worker.py exec   <planfile> [--trace]   -> run ONE plan in this (fresh) interpreter, no fork
"""
import faulthandler
import json
import os
import select
import signal
import sys
import time
import traceback

VERIF = os.path.dirname(os.path.dirname(os.path.abspath(__file__)))
if VERIF not in sys.path:
    sys.path.insert(0, VERIF)

from simkit import util  # noqa: E402
from simkit import world  # noqa: E402

RUN_TIMEOUT_S = float(os.environ.get("VERIF_RUN_TIMEOUT_S", "60"))


def load_engine(name):
    import importlib

    return importlib.import_module("engines." + name)


def engine_of(plan, default):
    """A plan names the engine that executes it (an engine may hand some runs to another one)."""
    name = plan.get("engine")
    if name and name != getattr(default, "ENGINE", None):
        return load_engine(name)
    return default


def _child(engine, plan, wfd, trace):
    try:
        if not os.environ.get("VERIF_DEBUG"):
            dn = os.open(os.devnull, os.O_WRONLY)
            os.dup2(dn, 2)
            os.dup2(dn, 1)
        faulthandler.dump_traceback_later(RUN_TIMEOUT_S, exit=True)

        def emit(res):
            data = util.cjson(res).encode()
            off = 0
            while off < len(data):
                off += os.write(wfd, data[off:])
            os._exit(0)

        world.EMIT = emit
        try:
            res = engine.execute(plan, trace=trace)
        except BaseException:
            res = {"status": "error", "error": traceback.format_exc()[-4000:]}
        emit(res)
    finally:
        os._exit(0)


def run_forked(engine, plan, trace=False):
    rfd, wfd = os.pipe()
    pid = os.fork()
    if pid == 0:
        os.close(rfd)
        _child(engine, plan, wfd, trace)
    os.close(wfd)
    chunks = []
    deadline = time.monotonic() + RUN_TIMEOUT_S + 5
    timed_out = False
    while True:
        left = deadline - time.monotonic()
        if left <= 0:
            timed_out = True
            break
        r, _, _ = select.select([rfd], [], [], left)
        if not r:
            timed_out = True
            break
        b = os.read(rfd, 1 << 16)
        if not b:
            break
        chunks.append(b)
    os.close(rfd)
    if timed_out:
        try:
            os.kill(pid, signal.SIGKILL)
        except ProcessLookupError:
            pass
    _, st = os.waitpid(pid, 0)
    if timed_out:
        return {"status": "timeout"}
    raw = b"".join(chunks)
    if not raw:
        return {"status": "timeout" if os.WIFSIGNALED(st) or os.WEXITSTATUS(st) else "error",
                "error": f"child produced no result (wait status {st})"}
    try:
        return json.loads(raw)
    except Exception:
        return {"status": "error", "error": "unparsable child result"}


def cmd_selfcheck():
    world.boot()
    world.advance(util.GRID_US * 64)
    assert world.now_us() == 1_000_000, world.now_us()
    assert world.wpilib.Timer.getFPGATimestamp() == 1.0
    pid = os.fork()
    if pid == 0:
        os._exit(7)
    _, st = os.waitpid(pid, 0)
    assert os.WEXITSTATUS(st) == 7
    print("worker selfcheck ok: clock paused at 0, single thread, fork ok, code under test from", world.repo_path())
    return 0


def cmd_batch(jobfile):
    job = json.load(open(jobfile))
    engine = load_engine(job["engine"])
    world.boot()
    prop, tier, base = job["prop"], job["tier"], job["base_seed"]
    start, stride, count = job["start"], job["stride"], job["count"]
    wall_deadline = time.monotonic() + job["wall_s"]
    want_digests = job.get("digests", False)
    agg = {
        "runs": 0, "ok": 0, "inconclusive": 0, "violation": 0, "error": 0, "timeout": 0,
        "probes": {}, "faults": {}, "sim_us": 0, "nontrivial": 0,
        "shapes": set(), "shapes_nt": set(), "states": set(), "trans": set(),
        "violations": [], "errors": [], "samples": [], "digests": {}, "stopped_early": False,
        "next_index": start,
    }
    i = start
    while i < count:
        if time.monotonic() > wall_deadline:
            agg["stopped_early"] = True
            break
        seed = util.mix(base, prop, i)
        plan = engine.generate(seed, prop, tier, i)
        res = run_forked(engine_of(plan, engine), plan)
        st = res.get("status", "error")
        agg["runs"] += 1
        agg[st] = agg.get(st, 0) + 1
        for k, v in res.get("probes", {}).items():
            agg["probes"][k] = agg["probes"].get(k, 0) + v
        for k, v in res.get("faults", {}).items():
            agg["faults"][k] = agg["faults"].get(k, 0) + v
        agg["sim_us"] += res.get("sim_us", 0)
        if "shape" in res:
            agg["shapes"].add(res["shape"])
            if res.get("nontrivial"):
                agg["nontrivial"] += 1
                agg["shapes_nt"].add(res["shape"])
                if len(agg["samples"]) < 2:
                    agg["samples"].append({"index": i, "seed": seed, "plan": plan})
        agg["states"].update(res.get("states", ()))
        agg["trans"].update(res.get("trans", ()))
        if want_digests:
            agg["digests"][str(i)] = res.get("digest", st)
        if st == "violation" and len(agg["violations"]) < 4:
            agg["violations"].append({"index": i, "seed": seed, "plan": plan, "violation": res["violation"]})
        elif st in ("error", "timeout") and len(agg["errors"]) < 4:
            agg["errors"].append({"index": i, "seed": seed, "plan": plan, "status": st, "error": res.get("error")})
        i += stride
    agg["next_index"] = i
    for k in ("shapes", "shapes_nt", "states", "trans"):
        agg[k] = sorted(agg[k])
    with open(jobfile + ".out.json", "w") as f:
        json.dump(agg, f)
    return 0


def cmd_serve(engine_name):
    engine = load_engine(engine_name)
    world.boot()
    out = sys.stdout
    for line in sys.stdin:
        line = line.strip()
        if not line:
            continue
        req = json.loads(line)
        res = run_forked(engine_of(req["plan"], engine), req["plan"], trace=req.get("trace", False))
        out.write(util.cjson(res) + "\n")
        out.flush()
    return 0


def cmd_exec(planfile, trace):
    plan = json.load(open(planfile))
    engine = load_engine(plan["engine"])
    world.boot()
    faulthandler.dump_traceback_later(RUN_TIMEOUT_S, exit=True)
    real_out = os.dup(1)
    if not os.environ.get("VERIF_DEBUG"):
        dn = os.open(os.devnull, os.O_WRONLY)
        os.dup2(dn, 2)
        os.dup2(dn, 1)
    def emit(res):
        os.write(real_out, (util.cjson(res) + "\n").encode())
        os._exit(0)

    world.EMIT = emit
    try:
        res = engine.execute(plan, trace=trace)
    except BaseException:
        res = {"status": "error", "error": traceback.format_exc()[-4000:]}
    emit(res)


def main(argv):
    cmd = argv[1]
    if cmd == "selfcheck":
        return cmd_selfcheck()
    if cmd == "batch":
        return cmd_batch(argv[2])
    if cmd == "serve":
        return cmd_serve(argv[2])
    if cmd == "exec":
        return cmd_exec(argv[2], "--trace" in argv)
    raise SystemExit("unknown command")


if __name__ == "__main__":
    sys.exit(main(sys.argv))
